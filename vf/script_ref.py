"""Reference script rules, written from the property statements (C05, C06, C16).

classify(script, coin) -> Verdict
  .types    set of allowed type names (usually one; >1 only in the documented unconstrained zones)
  .address  the required address string, or None if the script must not get an address
  .payload  for OP_RETURN scripts: bytes of the single push (pinned), or ANY if the statement does
            not pin what is printed; None for non OP_RETURN types
"""
from .ser import hash160, b58check_encode, b58check_decode, segwit_encode, segwit_decode
from .chain import COINS

ANY = object()

OP_RETURN = 0x6A
OP_DUP, OP_HASH160, OP_EQUAL, OP_EQUALVERIFY, OP_CHECKSIG, OP_CHECKMULTISIG = 0x76, 0xA9, 0x87, 0x88, 0xAC, 0xAE
OP_1, OP_2, OP_3, OP_16 = 0x51, 0x52, 0x53, 0x60
NOPS = {0x61} | set(range(0xB0, 0xBA))

# first opcodes whose execution always fails (besides OP_RETURN): OP_VERIF/OP_VERNOTIF, the 15 disabled
# opcodes, OP_RESERVED / OP_VER / OP_RESERVED1 / OP_RESERVED2, and the undefined opcodes 0xba..0xff
UNSPENDABLE_FIRST = ({0x65, 0x66} | {0x7E, 0x7F, 0x80, 0x81, 0x83, 0x84, 0x85, 0x86, 0x8D, 0x8E, 0x95, 0x96, 0x97, 0x98, 0x99}
                     | {0x50, 0x62, 0x89, 0x8A} | set(range(0xBA, 0x100)))


class Verdict:
    __slots__ = ("types", "address", "payload")

    def __init__(self, types, address=None, payload=None):
        self.types = set([types]) if isinstance(types, str) else set(types)
        self.address = address
        self.payload = payload

    @property
    def pinned_type(self):
        return next(iter(self.types)) if len(self.types) == 1 else None

    def __repr__(self):
        return "Verdict(%s,%s,%s)" % (sorted(self.types), self.address, "ANY" if self.payload is ANY else self.payload)


def tokenize(script: bytes):
    """Bitcoin push rules. Returns list of ('op', code) / ('push', bytes, opcode) or None if a push runs past the end."""
    out = []
    i, n = 0, len(script)
    while i < n:
        op = script[i]
        i += 1
        if op <= 0x4B:
            ln = op
        elif op == 0x4C:
            if i + 1 > n:
                return None
            ln = script[i]
            i += 1
        elif op == 0x4D:
            if i + 2 > n:
                return None
            ln = script[i] | script[i + 1] << 8
            i += 2
        elif op == 0x4E:
            if i + 4 > n:
                return None
            ln = int.from_bytes(script[i:i + 4], "little")
            i += 4
        else:
            out.append(("op", op))
            continue
        if i + ln > n:
            return None
        out.append(("push", script[i:i + ln], op))
        i += ln
    return out


def _single_push_payload(rest: bytes):
    """rest = bytes after OP_RETURN. Returns payload if rest is exactly one data push, else ANY."""
    toks = tokenize(rest)
    if toks is not None and len(toks) == 1 and toks[0][0] == "push":
        return toks[0][1]
    return ANY


def classify_bitcoin(script: bytes, coin):
    n = len(script)
    if n == 0:
        return Verdict("NotRecognised")
    b0 = script[0]
    if b0 == OP_RETURN:
        return Verdict("OpReturn", None, _single_push_payload(script[1:]))
    if b0 in UNSPENDABLE_FIRST:
        return Verdict("Unspendable")
    # P2PK
    if (n == 35 and b0 == 33 and script[34] == OP_CHECKSIG) or (n == 67 and b0 == 65 and script[66] == OP_CHECKSIG):
        return Verdict("Pay2PublicKey", b58check_encode(bytes([coin.version_byte]) + hash160(script[1:n - 1])))
    if n == 25 and script[:3] == b"\x76\xa9\x14" and script[23:] == b"\x88\xac":
        return Verdict("Pay2PublicKeyHash", b58check_encode(bytes([coin.version_byte]) + script[3:23]))
    if n == 23 and script[:2] == b"\xa9\x14" and script[22] == OP_EQUAL:
        return Verdict("Pay2ScriptHash", b58check_encode(bytes([coin.p2sh_byte]) + script[2:22]))
    # BIP141 witness program: version opcode + one direct push of 2..40 bytes, nothing else
    if 4 <= n <= 42 and (b0 == 0 or OP_1 <= b0 <= OP_16) and 2 <= script[1] <= 40 and n - 2 == script[1]:
        ver = 0 if b0 == 0 else b0 - 0x50
        prog = script[2:]
        if ver == 0:
            if len(prog) == 20:
                return Verdict("Pay2WitnessPublicKeyHash", segwit_encode(coin.hrp, 0, prog))
            if len(prog) == 32:
                return Verdict("Pay2WitnessScriptHash", segwit_encode(coin.hrp, 0, prog))
            return Verdict("WitnessProgram", None)   # BIP141: v0 programs must be 20 or 32 bytes -> no address
        if ver == 1 and len(prog) == 32:
            return Verdict("Pay2Taproot", segwit_encode(coin.hrp, 1, prog))
        return Verdict("WitnessProgram", segwit_encode(coin.hrp, ver, prog))
    # bare multisig
    toks = tokenize(script)
    if toks is not None and len(toks) >= 4 and toks[0][0] == "op" and OP_1 <= toks[0][1] <= OP_16:
        m = toks[0][1] - 0x50
        k = 0
        while 1 + k < len(toks) and toks[1 + k][0] == "push":
            k += 1
        if k >= 1 and len(toks) == k + 3 and toks[k + 1][0] == "op" and toks[k + 2] == ("op", OP_CHECKMULTISIG):
            x = toks[k + 1][1]
            if OP_1 <= x <= OP_16:
                nn = x - 0x50
                if nn == k and m <= nn:
                    if all(len(t[1]) in (33, 65) for t in toks[1:1 + k]):
                        return Verdict("Pay2MultiSig")
                    # well-formed m-of-n whose pushes are not all public-key sized: statement does not say
                    return Verdict({"Pay2MultiSig", "NotRecognised"})
            # OP_m <k pushes> <opcode that is not OP_1..OP_16> OP_CHECKMULTISIG is not an m-of-n multisig (no n): "otherwise
            # unrecognised". rust-bitcoin's is_multisig() accepts any opcode there; /repo was repaired (see DESIGN 11.3)
    return Verdict("NotRecognised")


def fork_tokens(script: bytes):
    """Token list used for template matching on fork coins: no-ops dropped; zero-length pushes kept as
    a distinct token that matches nothing. None if a push runs past the end."""
    toks = tokenize(script)
    if toks is None:
        return None
    out = []
    for t in toks:
        if t[0] == "push":
            out.append(("data", t[1]) if len(t[1]) > 0 else ("push0", t[2]))
        elif t[1] not in NOPS:
            out.append(t)
    return out


def _shape(toks):
    return tuple("D" if t[0] == "data" else ("Z" if t[0] == "push0" else t[1]) for t in toks)


def classify_fork(script: bytes, coin):
    toks = fork_tokens(script)
    if toks is None:
        return Verdict("NotRecognised")
    shape = _shape(toks)
    ver = bytes([coin.version_byte])
    if shape == (OP_DUP, OP_HASH160, "D", OP_EQUALVERIFY, OP_CHECKSIG):
        return Verdict("Pay2PublicKeyHash", b58check_encode(ver + toks[2][1]))
    if shape == ("D", OP_CHECKSIG):
        return Verdict("Pay2PublicKey", b58check_encode(ver + hash160(toks[0][1])))
    if shape == (OP_HASH160, "D", OP_EQUAL):
        return Verdict("Pay2ScriptHash", b58check_encode(b"\x05" + toks[1][1]))
    if shape == (OP_RETURN, "D"):
        return Verdict("OpReturn", None, toks[1][1])
    if shape == (OP_2, "D", "D", "D", OP_3, OP_CHECKMULTISIG):
        return Verdict("Pay2MultiSig")
    return Verdict("NotRecognised")


def classify(script: bytes, coin):
    if isinstance(coin, str):
        coin = COINS[coin]
    return classify_bitcoin(script, coin) if coin.bitcoin_rules else classify_fork(script, coin)


def opreturn_text(script: bytes, coin):
    """What `opreturn` must print as data for this output: str, None (prints nothing) or ANY."""
    if isinstance(coin, str):
        coin = COINS[coin]
    v = classify(script, coin)
    if v.pinned_type != "OpReturn":
        return None
    if v.payload is ANY:
        return ANY
    if len(v.payload) == 0:
        return None
    if coin.bitcoin_rules:
        try:
            return v.payload.decode("utf-8")
        except UnicodeDecodeError:
            return None
    return v.payload.decode("utf-8", errors="replace")


# ---------------------------------------------------------------- independent address decoder oracle
def embedded_hashes(script: bytes):
    """All (kind, bytes) candidates that an address for this script could legitimately encode."""
    cands = []
    toks = tokenize(script)
    if toks:
        for t in toks:
            if t[0] == "push" and len(t[1]) > 0:
                cands.append(("push", t[1]))
                cands.append(("h160", hash160(t[1])))
    return cands


def check_address(addr: str, script: bytes, coin):
    """Decodes `addr` independently and checks prefix/checksum/payload against the script bytes.
    Returns None if fine, else a reason string."""
    if isinstance(coin, str):
        coin = COINS[coin]
    if coin.hrp and addr.lower().startswith(coin.hrp + "1"):
        try:
            hrp, ver, prog = segwit_decode(addr)
        except ValueError as e:
            return "bech32: %s" % e
        if hrp != coin.hrp:
            return "wrong hrp %s" % hrp
        if len(script) < 4 or script[2:] != prog or script[1] != len(prog):
            return "witness program not the one in the script"
        want = 0 if script[0] == 0 else script[0] - 0x50
        if ver != want:
            return "witness version %d != %d" % (ver, want)
        return None
    try:
        payload = b58check_decode(addr)
    except ValueError as e:
        return "base58check: %s" % e
    prefix, data = payload[0], payload[1:]
    allowed = {coin.version_byte, coin.p2sh_byte if coin.bitcoin_rules else 0x05}
    if prefix not in allowed:
        return "prefix 0x%02x not of this network" % prefix
    for kind, b in embedded_hashes(script):
        if b == data:
            return None
    return "payload %s is neither a push of the script nor HASH160 of one" % data.hex()
