"""Running the binary on a data directory and reading back what it produced."""
import os
import re
import shutil
import zlib

from .core import run, Inconclusive
from .datadir import Placement, write_datadir, ACTIVE


def simple_layout(chain, file=0, status=ACTIVE):
    return [Placement(b, h, file=file, status=status) for h, b in chain]


def cli(binary, datadir, coin, callback, dump=None, start=None, end=None, verify=False, verbosity=0, omit_coin=False, coin_spelling=None):
    argv = [binary, "-d", datadir] + ([] if omit_coin else ["-c", coin_spelling or coin])      # without -c the tool parses Bitcoin
    if verify:
        argv.append("--verify")
    if verbosity:
        argv.append("-" + "v" * verbosity)
    if start is not None:
        argv += ["-s", str(start)]
    if end is not None:
        argv += ["-e", str(end)]
    argv.append(callback)
    if callback in ("csvdump", "unspentcsvdump", "balances"):
        argv.append(dump)
    return argv


TMP_NAMES = {"csvdump": ["blocks.csv.tmp", "transactions.csv.tmp", "tx_in.csv.tmp", "tx_out.csv.tmp"], "unspentcsvdump": ["unspent.csv.tmp"],
             "balances": ["balances.csv.tmp"]}
STALE_ROW = "00000000000000000000000000000000000000000000000000000000deadbeef;99999;1;stale-row-of-an-interrupted-earlier-run;1BitcoinEaterAddressDontSendf59kuE\n"


def surroundings(datadir, coin, callback, start, end, verify):
    """Deterministic per (case directory, options): which harmless variation of the surroundings this run gets. Both must not change
    any result: (a) left-over *.tmp files of an interrupted earlier run of the same callback, longer than most outputs, in the dump
    folder; (b) -v / -vv (more log lines only); (c) the size of the worker pool (RAYON_NUM_THREADS 1, 2, 3 or the
    default: with one worker every parallel job holds many items and runs them in order, which makes anything that leaks from one
    item to the next deterministic)."""
    key = "%s|%s|%s|%s|%s|%s" % (os.path.basename(os.path.dirname(os.path.abspath(datadir))), coin, callback, start, end, verify)
    h = zlib.crc32(key.encode())
    return (h % 3 == 0), (0, 0, 0, 0, 1, 2)[(h >> 8) % 6], (None, None, "1", None, "2", "3")[(h >> 16) % 6]


def run_cb(binary, datadir, coin, callback, dump=None, start=None, end=None, verify=False, env=None, log=None, vary=True, omit_coin=False, coin_spelling=None, **kw):
    if dump:
        os.makedirs(dump, exist_ok=True)
    e = dict(env or {})
    if log:
        e["RBP_VERIF_LOG"] = log
        if os.path.exists(log):
            os.unlink(log)
    plant, verbosity, threads = surroundings(datadir, coin, callback, start, end, verify) if vary and os.environ.get("VERIF_NO_SURROUNDINGS") is None else (False, 0, None)
    if threads and "RAYON_NUM_THREADS" not in e:
        e["RAYON_NUM_THREADS"] = threads
    if plant and dump and not os.listdir(dump):
        for name in TMP_NAMES.get(callback, []):
            with open(os.path.join(dump, name), "w") as f:
                f.write(STALE_ROW * 400)
            if kw.get("user"):
                os.chown(os.path.join(dump, name), *kw["user"])     # left over by an earlier run of the same account
    p = run(cli(binary, datadir, coin, callback, dump, start, end, verify, verbosity=verbosity, omit_coin=omit_coin, coin_spelling=coin_spelling), env=e, **kw)
    if p.timed_out:
        raise Inconclusive("watchdog fired for %s" % callback)
    if "LockError" in (p.err or "") or "LockError" in (p.out or ""):
        raise Inconclusive("LevelDB LockError (harness isolation problem)")
    return p


def read_events(log):
    import json
    ev = []
    if not os.path.exists(log):
        return ev
    for ln in open(log):
        ln = ln.strip()
        if ln:
            ev.append(json.loads(ln))
    ev.sort(key=lambda e: e["seq"])
    return ev


def listing(dump):
    return sorted(os.listdir(dump)) if os.path.isdir(dump) else []


def read_dump(dump):
    """name -> text for every file in the dump folder"""
    out = {}
    for n in listing(dump):
        with open(os.path.join(dump, n), "r", errors="replace", newline="") as f:
            out[n] = f.read()
    return out


SUMMARY_RE = re.compile(r"Dumped blocks from height (\d+) to (\d+):\n\t-> transactions:\s+(\d+)\n\t-> inputs:\s+(\d+)\n\t-> outputs:\s+(\d+)")
_RANGE_RE = re.compile(r"from height (\d+) to (\d+)")
_TOTAL_RES = [re.compile(r"transactions:\s*(\d+)"), re.compile(r"inputs:\s*(\d+)"), re.compile(r"outputs:\s*(\d+)")]
HEIGHT_RE = re.compile(r"height\D{0,12}?(\d+)", re.I)


def parse_summary(stdout):
    """(start, last, transactions, inputs, outputs) of the completion summary; tolerant of layout changes: the three
    labelled totals are searched individually after the last 'Done.' marker."""
    m = SUMMARY_RE.search(stdout)
    if m:
        return tuple(int(g) for g in m.groups())
    tail = stdout[stdout.rfind("Done."):] if "Done." in stdout else stdout
    tot = [r.search(tail) for r in _TOTAL_RES]
    rng = _RANGE_RE.search(tail)
    if all(tot) and rng:
        return (int(rng.group(1)), int(rng.group(2))) + tuple(int(t.group(1)) for t in tot)
    return None


def reported_error_height(stderr):
    """height named by the failure message on stderr (any wording that puts a number after the word 'height')"""
    for ln in stderr.split("\n"):
        if "rror" in ln or "ERROR" in ln:
            m = HEIGHT_RE.search(ln)
            if m:
                return int(m.group(1))
    return None


def first_diff(a, b):
    """Human description of the first differing line of two texts."""
    la, lb = a.split("\n"), b.split("\n")
    for i, (x, y) in enumerate(zip(la, lb)):
        if x != y:
            return "line %d: got %r expected %r" % (i + 1, x[:300], y[:300])
    return "length differs: got %d lines, expected %d lines" % (len(la), len(lb))


def fresh(path):
    shutil.rmtree(path, ignore_errors=True)
    os.makedirs(path)
    return path
