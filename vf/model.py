"""Reference model: what each callback must output for a logical chain and range (computed from the
logical objects, never by parsing bytes back)."""
import re
from fractions import Fraction

from .ser import rhex
from .chain import ZERO32
from . import script_ref

LOG_RE = re.compile(r"^\[\d\d:\d\d:\d\d\] (ERROR|WARN|INFO|DEBUG|TRACE) - ")


def in_range(chain, start, end):
    """chain: list of (height, Block) ascending and gap free. Returns the processed slice per the documented
    inclusive semantics."""
    if not chain:
        return []
    tip = chain[-1][0]
    last = tip if end is None else min(end, tip)
    return [(h, b) for h, b in chain if start <= h <= last]


def last_height(chain, start, end):
    sl = in_range(chain, start, end)
    return sl[-1][0] if sl else None


def address_of(script, coin):
    return script_ref.classify(script, coin).address


def csv_expected(chain, coin, start=0, end=None, sizes=None):
    """Returns dict name-> text for the four csvdump files (names without range), plus totals."""
    sl = in_range(chain, start, end)
    blocks, txs, ins, outs = [], [], [], []
    ntx = nin = nout = 0
    for h, b in sl:
        size = (sizes or {}).get(h)
        if size is None:
            size = len(b.ser()) + len(getattr(b, "slack", b""))
        blocks.append("%s;%d;%d;%d;%s;%s;%d;%d;%d\n" % (b.hash_hex, h, b.version, size, rhex(b.prev), rhex(b.merkle_bytes), b.time, b.bits, b.nonce))
        bh = b.hash_hex
        for t in b.txs:
            tid = t.txid_hex
            txs.append("%s;%s;%d;%d\n" % (tid, bh, t.version, t.locktime))
            for i in t.ins:
                ins.append("%s;%s;%d;%s;%d\n" % (tid, rhex(i.prev_txid), i.prev_index, i.script_sig.hex(), i.sequence))
            for n, o in enumerate(t.outs):
                outs.append("%s;%d;%d;%s;%s\n" % (tid, n, o.value, o.script.hex(), address_of(o.script, coin) or ""))
            nin += len(t.ins)
            nout += len(t.outs)
        ntx += len(b.txs)
    return {"blocks": "".join(blocks), "transactions": "".join(txs), "tx_in": "".join(ins), "tx_out": "".join(outs),
            "totals": (ntx, nin, nout)}


def utxo_expected(chain, coin, start=0, end=None):
    """dict (txid_hex, index) -> (height, value, address); totals (ntx, nin, nout_with_address)"""
    sl = in_range(chain, start, end)
    utxo = {}
    ntx = nin = nout = 0
    for h, b in sl:
        for t in b.txs:
            for i in t.ins:
                utxo.pop((rhex(i.prev_txid), i.prev_index), None)
            tid = t.txid_hex
            for n, o in enumerate(t.outs):
                a = address_of(o.script, coin)
                if a is not None:
                    utxo[(tid, n)] = (h, o.value, a)
                    nout += 1
            nin += len(t.ins)
        ntx += len(b.txs)
    return utxo, (ntx, nin, nout)


def unspent_rows(utxo):
    return sorted("%s;%d;%d;%d;%s" % (k[0], k[1], v[0], v[1], v[2]) for k, v in utxo.items())


def balances_expected(utxo):
    bal = {}
    for (_, _), (h, value, a) in utxo.items():
        bal[a] = bal.get(a, 0) + value
    return bal


def opreturn_expected(chain, coin, start=0, end=None):
    """list of expected lines; an element may be (prefix, ANY) when the payload text is not pinned."""
    lines = []
    for h, b in in_range(chain, start, end):
        for t in b.txs:
            for o in t.outs:
                txt = script_ref.opreturn_text(o.script, coin)
                if txt is None:
                    continue
                prefix = OPRETURN_CANON % (h, t.txid_hex)
                lines.append((prefix, txt))
    return lines


# An opreturn line carries the block height, the txid and the payload. The comparison is done on a canonical prefix so
# that the amount of padding between the three fields does not matter (the property does not pin it).
OPRETURN_CANON = "height: %d txid: %s data: "
_OPRETURN_LINE = re.compile(r"(?m)^height:[ \t]*(\d+)[ \t]+txid:[ \t]*([0-9a-f]{64})[ \t]+data: ")


def canon_opreturn(text):
    return _OPRETURN_LINE.sub(lambda m: OPRETURN_CANON % (int(m.group(1)), m.group(2)), text)


def strip_log(stdout):
    """stdout with log records removed. A log record starts with a `[HH:MM:SS] LEVEL - ` line; multi-line
    records (report, completion summary) continue until the next record; since payload lines never look
    like a log line (generator guarantee) and the opreturn callback logs no multi-line record before the
    end, this is only used for opreturn, where every log record is a single line."""
    return [ln for ln in stdout.split("\n") if not LOG_RE.match(ln)]


# ---------------------------------------------------------------- simplestats
def base_reward(height):
    """50 coins halved every 210000 heights (integer halving; zero from the 64th halving on, as in Bitcoin Core)"""
    return (50 * 10**8) >> (height // 210000)


def stats_expected(chain, coin, start=0, end=None, sizes=None):
    sl = in_range(chain, start, end)
    st = {"blocks": len(sl), "txs": 0, "inputs": 0, "outputs": 0, "fees": 0, "volume": 0,
          "big_value": (0, 0, rhex(ZERO32)), "big_size": (0, 0, rhex(ZERO32)), "types": {}, "first": {}}
    sizes_l, gaps = [], []
    last_ts = 0
    for h, b in sl:
        size = (sizes or {}).get(h)
        sizes_l.append(len(b.ser()) + len(getattr(b, "slack", b"")) if size is None else size)
        st["txs"] += len(b.txs)
        for t in b.txs:
            if t.is_coinbase():
                st["fees"] += max(0, t.outs[0].value - base_reward(h))
            st["inputs"] += len(t.ins)
            st["outputs"] += len(t.outs)
            val = 0
            for n, o in enumerate(t.outs):
                v = script_ref.classify(o.script, coin)
                ty = v.pinned_type
                if ty is None:
                    ty = "?" + "|".join(sorted(v.types))
                name = 'OpReturn("")' if ty == "OpReturn" else ty
                st["types"][name] = st["types"].get(name, 0) + 1
                st["first"].setdefault(name, (h, t.txid_hex))
                val += o.value
            if val > st["big_value"][0]:
                st["big_value"] = (val, h, t.txid_hex)
            st["volume"] += val
            sz = len(t.ser_nowit())
            if sz > st["big_size"][0]:
                st["big_size"] = (sz, h, t.txid_hex)
        if last_ts > 0:
            gaps.append(max(0, b.time - last_ts))
        last_ts = b.time
    st["avg_block_size_kib"] = Fraction(sum(sizes_l), len(sizes_l) * 1024) if sizes_l else Fraction(0)
    st["avg_gap_min"] = Fraction(sum(gaps), len(gaps) * 60) if gaps else Fraction(0)
    st["avg_txs"] = Fraction(st["txs"], st["blocks"]) if st["blocks"] else None
    st["avg_inputs"] = Fraction(st["inputs"], st["txs"]) if st["txs"] else None
    st["avg_outputs"] = Fraction(st["outputs"], st["txs"]) if st["txs"] else None
    st["avg_value"] = Fraction(st["volume"], st["outputs"] * 10**8) if st["outputs"] else None
    return st


_NUM = r"([-+0-9.eEinfNa]+)"


def parse_stats(stdout):
    """Parses the simplestats report from stdout. Returns dict or None if no report found."""
    if "SimpleStats:" not in stdout:
        return None
    rep = stdout[stdout.index("SimpleStats:"):]
    out = {}

    def grab(label, pat, conv=str):
        m = re.search(re.escape(label) + r"\s*" + pat, rep)
        if not m:
            raise ValueError("report field missing: %s" % label)
        return [conv(g) if conv else g for g in m.groups()]

    out["blocks"] = int(grab("-> valid blocks:", r"(\d+)")[0])
    out["txs"] = int(grab("-> total transactions:", r"(\d+)")[0])
    out["inputs"] = int(grab("-> total tx inputs:", r"(\d+)")[0])
    out["outputs"] = int(grab("-> total tx outputs:", r"(\d+)")[0])
    f = grab("-> total tx fees:", _NUM + r" \((\d+) units\)")
    out["fees_f"], out["fees"] = f[0], int(f[1])
    f = grab("-> total volume:", _NUM + r" \((\d+) units\)")
    out["volume_f"], out["volume"] = f[0], int(f[1])
    m = re.search(r"-> biggest value tx:\s*" + _NUM + r" \((\d+) units\)\n\s+seen in block #(\d+), txid: ([0-9a-f]{64})", rep)
    if not m:
        raise ValueError("biggest value tx missing")
    out["big_value"] = (int(m.group(2)), int(m.group(3)), m.group(4))
    out["big_value_f"] = m.group(1)
    m = re.search(r"-> biggest size tx:\s*(\d+) bytes\n\s+seen in block #(\d+), txid: ([0-9a-f]{64})", rep)
    if not m:
        raise ValueError("biggest size tx missing")
    out["big_size"] = (int(m.group(1)), int(m.group(2)), m.group(3))
    out["avg_block_size_kib"] = grab("-> avg block size:", _NUM + r" KiB")[0]
    out["avg_gap_min"] = grab("-> avg time between blocks:", _NUM + r" \(minutes\)")[0]
    out["avg_txs"] = grab("-> avg txs per block:", _NUM)[0]
    out["avg_inputs"] = grab("-> avg inputs per tx:", _NUM)[0]
    out["avg_outputs"] = grab("-> avg outputs per tx:", _NUM)[0]
    out["avg_value"] = grab("-> avg value per output:", _NUM)[0]
    types, first, shares = {}, {}, {}
    tt = rep[rep.index("Transaction Types:"):] if "Transaction Types:" in rep else ""
    for m in re.finditer(r"   -> (.+?): (\d+) \(" + _NUM + r"%\)\n\s+first seen in block #(\d+), txid: ([0-9a-f]{64})", tt):
        name = m.group(1)
        if name in types:
            raise ValueError("type listed twice: %s" % name)
        types[name] = int(m.group(2))
        shares[name] = m.group(3)
        first[name] = (int(m.group(4)), m.group(5))
    out["types"], out["first"], out["shares"] = types, first, shares
    out["type_lines"] = len(re.findall(r"^   -> .*%\)$", tt, re.M))
    return out


def close_decimal(printed, exact, places):
    """printed: str as rendered with {:.places}; exact: Fraction. Accepts the neighbouring last digit."""
    try:
        got = Fraction(printed)
    except (ValueError, ZeroDivisionError):
        return False
    tol = Fraction(1, 10**places) + abs(exact) * Fraction(1, 10**13)
    return abs(got - exact) <= tol


def compare_stats(got, exp):
    """Returns list of mismatch descriptions."""
    bad = []
    for k in ("blocks", "txs", "inputs", "outputs", "fees", "volume"):
        if got[k] != exp[k]:
            bad.append("%s: got %s expected %s" % (k, got[k], exp[k]))
    for k in ("big_value", "big_size"):
        if tuple(got[k]) != tuple(exp[k]):
            bad.append("%s: got %s expected %s" % (k, got[k], exp[k]))
    if not close_decimal(got["fees_f"], Fraction(exp["fees"], 10**8), 8):
        bad.append("fees (coins): got %s expected %s/1e8" % (got["fees_f"], exp["fees"]))
    if not close_decimal(got["volume_f"], Fraction(exp["volume"], 10**8), 8):
        bad.append("volume (coins): got %s expected %s/1e8" % (got["volume_f"], exp["volume"]))
    if not close_decimal(got["big_value_f"], Fraction(exp["big_value"][0], 10**8), 8):
        bad.append("biggest value (coins): got %s" % got["big_value_f"])
    for k in ("avg_block_size_kib", "avg_gap_min", "avg_txs", "avg_inputs", "avg_outputs", "avg_value"):
        e = exp[k]
        if e is None:
            if got[k] not in ("NaN", "inf", "-nan", "nan"):
                bad.append("%s: got %s expected NaN (empty range)" % (k, got[k]))
        elif not close_decimal(got[k], e, 2):
            bad.append("%s: got %s expected %.6f" % (k, got[k], float(e)))
    # type table as a set
    exp_types = exp["types"]
    unpinned = [t for t in exp_types if t.startswith("?")]
    if not unpinned:
        if got["types"] != exp_types:
            bad.append("type counts: got %s expected %s" % (got["types"], exp_types))
        if got["first"] != exp["first"]:
            bad.append("first occurrences: got %s expected %s" % (got["first"], exp["first"]))
        if got["type_lines"] != len(exp_types):
            bad.append("type lines: %d printed, %d types expected" % (got["type_lines"], len(exp_types)))
        for name, cnt in exp_types.items():
            if name in got["shares"] and exp["outputs"]:
                if not close_decimal(got["shares"][name], Fraction(cnt * 100, exp["outputs"]), 2):
                    bad.append("share of %s: got %s expected %.4f" % (name, got["shares"][name], cnt * 100.0 / exp["outputs"]))
    elif sum(got["types"].values()) != exp["outputs"]:
        bad.append("type counts do not add up to the outputs")
    return bad
