"""strace based process-boundary tracing and fault injection."""
import os
import re
import shutil

from .core import run, Inconclusive

STRACE = shutil.which("strace")
TRACE_SET = "openat,open,creat,write,pwrite64,writev,rename,renameat,renameat2,close,unlink,unlinkat,ftruncate,truncate,link,linkat,symlink"

LINE_RE = re.compile(r"^(\d+)\s+(\w+)\((.*)\)\s+=\s+(-?\d+|\?)(.*)$")
FD_PATH_RE = re.compile(r"^(\d+)<([^>]*)>")


def traced(argv, trace_file, paths=None, inject=None, env=None, rlimits=None, ignore_sigxfsz=False, timeout=300):
    """Runs argv under strace -f -y. inject: e.g. 'write:error=ENOSPC:when=3+' (counted over syscalls matching -P paths)."""
    if not STRACE:
        raise Inconclusive("strace not available")
    cmd = [STRACE, "-f", "-y", "-qq", "-s", "0", "-o", trace_file, "-e", "trace=" + TRACE_SET]
    if inject:
        cmd += ["-e", "inject=" + inject]
    for p in paths or []:
        cmd += ["-P", p]
    p = run(cmd + argv, env=env, rlimits=rlimits, ignore_sigxfsz=ignore_sigxfsz, timeout=timeout)
    if p.timed_out:
        raise Inconclusive("watchdog fired under strace")
    if "strace:" in p.err and ("attach" in p.err or "ptrace" in p.err or "PTRACE" in p.err):
        raise Inconclusive("strace could not trace: %s" % p.err[-200:])
    return p


def parse(trace_file):
    """Returns list of events: dict(pid, call, args, ret, fdpath, path, dst, extra)"""
    ev = []
    pending = {}
    if not os.path.exists(trace_file):
        return ev
    for ln in open(trace_file, errors="replace"):
        ln = ln.rstrip("\n")
        m = re.match(r"^(\d+)\s+(.*)$", ln)
        if not m:
            continue
        pid, rest = m.group(1), m.group(2)
        if rest.endswith("<unfinished ...>"):
            pending[pid] = rest[:-len("<unfinished ...>")].rstrip()
            continue
        r = re.match(r"^<\.\.\. (\w+) resumed>(.*)$", rest)
        if r:
            rest = pending.pop(pid, r.group(1) + "(") + r.group(2)
        if rest.startswith("+++") or rest.startswith("---"):
            ev.append({"pid": pid, "call": "signal" if rest.startswith("---") else "exit", "raw": rest})
            continue
        m = re.match(r"^(\w+)\((.*)\)\s+=\s+(-?\d+|\?)(.*)$", rest)
        if not m:
            continue
        call, args, ret, extra = m.group(1), m.group(2), m.group(3), m.group(4)
        e = {"pid": pid, "call": call, "args": args, "ret": None if ret == "?" else int(ret), "extra": extra.strip()}
        if "(INJECTED)" in extra:
            e["injected"] = True
        if call in ("write", "pwrite64", "writev", "close", "ftruncate"):
            fm = FD_PATH_RE.match(args)
            if fm:
                e["fd"], e["fdpath"] = int(fm.group(1)), fm.group(2)
        elif call in ("openat", "open", "creat"):
            q = re.findall(r'"([^"]*)"', args)
            e["path"] = q[0] if q else None
            e["flags"] = args
            rm = re.match(r"^\s*<([^>]*)>", extra) or re.search(r"=\s*\d+<([^>]*)>", rest)
            fm = re.search(r"\)\s+=\s+\d+<([^>]*)>", rest)
            e["abspath"] = fm.group(1) if fm else None
        elif call in ("rename", "renameat", "renameat2", "link", "linkat", "symlink"):
            q = re.findall(r'"([^"]*)"', args)
            if len(q) >= 2:
                e["src"], e["dst"] = q[0], q[1]
        elif call in ("unlink", "unlinkat", "truncate"):
            q = re.findall(r'"([^"]*)"', args)
            e["path"] = q[0] if q else None
        ev.append(e)
    return ev
