"""Known-answer tests of the reference model's primitives against published vectors (independent of the repo):
run by setup.sh and by `python3 -m vf.selfcheck`. A failure here means the ORACLE is wrong."""
from .ser import (b58check_encode, b58check_decode, segwit_encode, segwit_decode, core_varint, core_varint_decode, compact_size,
                  sha256d, hash160, rhex)
from .chain import merkle_root, genesis_block, COINS
from . import script_ref as sr


def main():
    n = 0
    # Bitcoin Core serialize_tests.cpp (varints_bitpatterns)
    for v, hx in [(0, "00"), (0x7F, "7f"), (0x80, "8000"), (0x1234, "a334"), (0xFFFF, "82fe7f"), (0x123456, "c7e756"),
                  (0x80123456, "86ffc7e756"), (0xFFFFFFFF, "8efefefe7f"), (0x7FFFFFFFFFFFFFFF, "fefefefefefefefe7f"),
                  (0xFFFFFFFFFFFFFFFF, "80fefefefefefefefe7f")]:
        assert core_varint(v).hex() == hx, ("core_varint", v, core_varint(v).hex(), hx)
        assert core_varint_decode(bytes.fromhex(hx))[0] == v
        n += 1
    # CompactSize
    for v, hx in [(0, "00"), (252, "fc"), (253, "fdfd00"), (0xFFFF, "fdffff"), (0x10000, "fe00000100"), (0xFFFFFFFF, "feffffffff"), (0x100000000, "ff0000000001000000")]:
        assert compact_size(v).hex() == hx, ("compact_size", v)
        n += 1
    # Base58Check (Bitcoin wiki / BIP13 examples)
    assert b58check_encode(bytes.fromhex("00010966776006953d5567439e5e39f86a0d273bee")) == "16UwLL9Risc3QfPqBUvKofHmBQ7wMtjvM"
    assert b58check_encode(bytes.fromhex("0574f209f6ea907e2ea48f74fae05782ae8a665257")) == "3CMNFxN1oHBc4R1EpboAL5yzHGgE611Xou"
    assert b58check_decode("16UwLL9Risc3QfPqBUvKofHmBQ7wMtjvM").hex() == "00010966776006953d5567439e5e39f86a0d273bee"
    n += 3
    # BIP173 / BIP350 valid segwit addresses -> scriptPubKey
    for addr, spk in [
        ("BC1QW508D6QEJXTDG4Y5R3ZARVARY0C5XW7KV8F3T4", "0014751e76e8199196d454941c45d1b3a323f1433bd6"),
        ("tb1qrp33g0q5c5txsp9arysrx4k6zdkfs4nce4xj0gdcccefvpysxf3q0sl5k7", "00201863143c14c5166804bd19203356da136c985678cd4d27a1b8c6329604903262"),
        ("bc1pw508d6qejxtdg4y5r3zarvary0c5xw7kw508d6qejxtdg4y5r3zarvary0c5xw7kt5nd6y", "5128751e76e8199196d454941c45d1b3a323f1433bd6751e76e8199196d454941c45d1b3a323f1433bd6"),
        ("BC1SW50QGDZ25J", "6002751e"),
        ("bc1zw508d6qejxtdg4y5r3zarvaryvaxxpcs", "5210751e76e8199196d454941c45d1b3a323"),
        ("tb1qqqqqp399et2xygdj5xreqhjjvcmzhxw4aywxecjdzew6hylgvsesrxh6hy", "0020000000c4a5cad46221b2a187905e5266362b99d5e91c6ce24d165dab93e86433"),
        ("bc1p0xlxvlhemja6c4dqv22uapctqupfhlxm9h8z3k2e72q4k9hcz7vqzk5jj0", "512079be667ef9dcbbac55a06295ce870b07029bfcdb2dce28d959f2815b16f81798"),
    ]:
        hrp, ver, prog = segwit_decode(addr)
        s = bytes.fromhex(spk)
        assert (0 if s[0] == 0 else s[0] - 0x50) == ver and s[2:] == prog, ("segwit_decode", addr)
        assert segwit_encode(hrp, ver, prog) == addr.lower(), ("segwit_encode", addr)
        coin = COINS["bitcoin" if hrp == "bc" else "testnet3"]
        v = sr.classify(s, coin)
        assert v.address == addr.lower(), ("classify", addr, v)
        n += 1
    for bad in ["bc1qw508d6qejxtdg4y5r3zarvary0c5xw7kemeawh",   # v0 with bech32m checksum
                "bc1p0xlxvlhemja6c4dqv22uapctqupfhlxm9h8z3k2e72q4k9hcz7vqh2y7hd",  # v1 with bech32 checksum
                "tb1qrp33g0q5c5txsp9arysrx4k6zdkfs4nce4xj0gdcccefvpysxf3q0sL5k7"]:   # mixed case
        try:
            segwit_decode(bad)
            raise AssertionError(("segwit_decode accepted", bad))
        except ValueError:
            n += 1
    # merkle root: bitcoin block 100000 (4 txs) and a 6-leaf vector
    txids = ["8c14f0db3df150123e6f3dbbf30f8b955a8249b62ac1d1ff16284aefa3d06d87", "fff2525b8931402dd09222c50775608f75787bd2b87e56995a7bdd30f79702c4",
             "6359f0868171b1d194cbee1af2f16ea598ae8fad666d9b012c8ed2b79a236ec4", "e9a66845e05d5abc0ad04ec80f774a7e585c6e8db975962d069a522137b80c1d"]
    assert rhex(merkle_root([bytes.fromhex(t)[::-1] for t in txids])) == "f3e94742aca4b5ef85488dc37c06c3282295ffec960994b2c0d5ac2a25a95766"
    n += 1
    # real genesis blocks
    for c in ("bitcoin", "testnet3", "litecoin", "dogecoin"):
        assert genesis_block(c) is not None and genesis_block(c).hash_hex == COINS[c].genesis_hash
        n += 1
    g = genesis_block("bitcoin")
    assert g.txs[0].txid_hex == "4a5e1e4baab89f3a32518a88c31bc87f618f76673e2cc77ab2127b7afdeda33b"
    assert sr.classify(g.txs[0].outs[0].script, COINS["bitcoin"]).address == "1A1zP1eP5QGefi2DMPTfTL5SLmv7DivfNa"
    n += 2
    print("vf.selfcheck: %d known-answer tests passed" % n)


if __name__ == "__main__":
    main()
