"""Comparison of observed callback output with the reference model. Every function returns a list of
(sig, detail) tuples — empty when the property held on this execution."""
import os

from . import model
from .harness import read_dump, parse_summary, first_diff, listing
from .script_ref import ANY

CSV_FILES = ("blocks", "transactions", "tx_in", "tx_out")


def check_csvdump(proc, dump, chain, coin, start=0, end=None, sizes=None, mask_address=False, prefix="csv"):
    bad = []
    if proc.rc != 0:
        return [(prefix + ":exit", "csvdump exited %s: %s" % (proc.rc, (proc.err or proc.out)[-400:]))]
    sl = model.in_range(chain, start, end)
    if not sl:
        # range above the tip: only "exit 0, no rows" is pinned
        for n, txt in read_dump(dump).items():
            if n.endswith(".csv") and txt != "":
                bad.append((prefix + ":rows-outside-range", "file %s has rows although no block is in range" % n))
        return bad
    last = sl[-1][0]
    exp = model.csv_expected(chain, coin, start, end, sizes)
    got = read_dump(dump)
    want_names = sorted("%s-%d-%d.csv" % (f, start, last) for f in CSV_FILES)
    have = sorted(n for n in got)
    if have != want_names:
        bad.append((prefix + ":names", "dump folder has %s, expected %s" % (have, want_names)))
    for f in CSV_FILES:
        n = "%s-%d-%d.csv" % (f, start, last)
        if n not in got:
            continue
        g, e = got[n], exp[f]
        if mask_address and f == "tx_out":
            g = "\n".join(ln.rsplit(";", 1)[0] for ln in g.split("\n"))
            e = "\n".join(ln.rsplit(";", 1)[0] for ln in e.split("\n"))
        if g != e:
            bad.append((prefix + ":" + f, "%s differs from the model: %s" % (n, first_diff(g, e))))
    summ = parse_summary(proc.out)
    if summ is None:
        bad.append((prefix + ":summary", "completion summary missing"))
    else:
        if summ[:2] != (start, last):
            bad.append((prefix + ":summary-range", "summary says %s..%s, expected %d..%d" % (summ[0], summ[1], start, last)))
        if summ[2:] != exp["totals"]:
            bad.append((prefix + ":totals", "summary totals %s, model %s" % (summ[2:], exp["totals"])))
        for f, cnt in zip(("transactions", "tx_in", "tx_out"), summ[2:]):
            n = "%s-%d-%d.csv" % (f, start, last)
            if n in got and got[n].count("\n") != cnt:
                bad.append((prefix + ":totals-vs-rows", "summary %s=%d but %d rows written" % (f, cnt, got[n].count("\n"))))
    return bad


import re as _re
_REC_END = _re.compile(r"\n(?=height: \d+ txid: [0-9a-f]{64} data: |\n*$)")
UNSPENT_HEADER = "txid;indexOut;height;value;address"
BALANCES_HEADER = "address;balance"


def parse_rows(text, header):
    """Returns (rows list, problems)"""
    probs = []
    lines = text.split("\n")
    if lines and lines[-1] == "":
        lines.pop()
    else:
        probs.append("file does not end with a newline")
    if not lines or lines[0] != header:
        probs.append("first line is %r, expected header %r" % (lines[0] if lines else None, header))
        return lines, probs
    rows = lines[1:]
    if header in rows:
        probs.append("header repeated")
    return rows, probs


def check_unspent(proc, dump, chain, coin, start=0, end=None, prefix="unspent"):
    if proc.rc != 0:
        return [(prefix + ":exit", "unspentcsvdump exited %s: %s" % (proc.rc, (proc.err or proc.out)[-400:]))]
    sl = model.in_range(chain, start, end)
    got = read_dump(dump)
    if not sl:
        bad = []
        for n, txt in got.items():
            rows, _ = parse_rows(txt, UNSPENT_HEADER)
            if rows:
                bad.append((prefix + ":rows-outside-range", "rows although no block is in range"))
        return bad
    last = sl[-1][0]
    name = "unspent-%d-%d.csv" % (start, last)
    bad = []
    if sorted(got) != [name]:
        bad.append((prefix + ":names", "dump folder has %s, expected [%s]" % (sorted(got), name)))
    if name not in got:
        return bad
    rows, probs = parse_rows(got[name], UNSPENT_HEADER)
    for p in probs:
        bad.append((prefix + ":format", p))
    utxo, totals = model.utxo_expected(chain, coin, start, end)
    exp_rows = model.unspent_rows(utxo)
    srows = sorted(rows)
    if len(set(rows)) != len(rows):
        dup = [r for r in set(rows) if rows.count(r) > 1][:3]
        bad.append((prefix + ":duplicate", "rows listed twice: %s" % dup))
    keys = [tuple(r.split(";")[:2]) for r in rows]
    if len(set(keys)) != len(keys):
        bad.append((prefix + ":duplicate-key", "an outpoint is listed more than once"))
    if srows != exp_rows:
        missing = sorted(set(exp_rows) - set(rows))[:3]
        extra = sorted(set(rows) - set(exp_rows))[:3]
        bad.append((prefix + ":rows", "row set differs: %d rows vs %d expected; missing %s; extra %s" % (len(rows), len(exp_rows), missing, extra)))
    summ = parse_summary(proc.out)
    if summ is None:
        bad.append((prefix + ":summary", "completion summary missing"))
    elif summ != (start, last) + totals:
        bad.append((prefix + ":totals", "summary %s, model %s" % (summ, (start, last) + totals)))
    return bad


def aggregate_unspent(text):
    rows, _ = parse_rows(text, UNSPENT_HEADER)
    bal = {}
    for r in rows:
        f = r.split(";")
        bal[f[4]] = bal.get(f[4], 0) + int(f[3])
    return bal


def check_balances(proc, dump, chain, coin, start=0, end=None, prefix="balances"):
    if proc.rc != 0:
        return [(prefix + ":exit", "balances exited %s: %s" % (proc.rc, (proc.err or proc.out)[-400:]))]
    sl = model.in_range(chain, start, end)
    got = read_dump(dump)
    if not sl:
        bad = []
        for n, txt in got.items():
            rows, _ = parse_rows(txt, BALANCES_HEADER)
            if rows:
                bad.append((prefix + ":rows-outside-range", "rows although no block is in range"))
        return bad
    last = sl[-1][0]
    name = "balances-%d-%d.csv" % (start, last)
    bad = []
    if sorted(got) != [name]:
        bad.append((prefix + ":names", "dump folder has %s, expected [%s]" % (sorted(got), name)))
    if name not in got:
        return bad
    rows, probs = parse_rows(got[name], BALANCES_HEADER)
    for p in probs:
        bad.append((prefix + ":format", p))
    utxo, _ = model.utxo_expected(chain, coin, start, end)
    exp = model.balances_expected(utxo)
    seen = {}
    for r in rows:
        f = r.split(";")
        if len(f) != 2 or not f[1].isdigit():
            bad.append((prefix + ":format", "malformed row %r" % r))
            continue
        if f[0] in seen:
            bad.append((prefix + ":duplicate", "address %s listed twice" % f[0]))
        seen[f[0]] = int(f[1])
    if seen != exp:
        diff = [(a, seen.get(a), exp.get(a)) for a in sorted(set(seen) | set(exp)) if seen.get(a) != exp.get(a)][:3]
        bad.append((prefix + ":rows", "balances differ (address, got, expected): %s" % diff))
    return bad


def check_stats(proc, chain, coin, start=0, end=None, sizes=None, prefix="stats"):
    if proc.rc != 0:
        return [(prefix + ":exit", "simplestats exited %s: %s" % (proc.rc, (proc.err or proc.out)[-400:]))]
    try:
        got = model.parse_stats(proc.out)
    except ValueError as e:
        return [(prefix + ":report", "report not parsable: %s" % e)]
    if got is None:
        return [(prefix + ":report", "no report on stdout")]
    exp = model.stats_expected(chain, coin, start, end, sizes)
    return [(prefix + ":figure", d) for d in model.compare_stats(got, exp)]


def check_opreturn(proc, chain, coin, start=0, end=None, prefix="opreturn", exp=None):
    if proc.rc != 0:
        return [(prefix + ":exit", "opreturn exited %s: %s" % (proc.rc, (proc.err or proc.out)[-400:]))]
    if exp is None:
        exp = model.opreturn_expected(chain, coin, start, end)
    text = model.canon_opreturn("\n".join(model.strip_log(proc.out)))
    # expected text: each line prefix+payload+"\n" (payloads may contain newlines themselves). Outputs whose printed text
    # is not pinned (ANY) may be absent or carry anything up to the next expected prefix: both alternatives are tried.
    best = [0, 0]

    def match(i, pos):
        while i < len(exp):
            pre, txt = exp[i]
            if pos > best[1]:
                best[0], best[1] = i, pos
            if txt is ANY:
                if match(i + 1, pos):          # line absent
                    return True
                if not text.startswith(pre, pos):
                    return False
                # line present with unpinned text: it ends at one of the following newlines (the text itself may
                # contain newlines); try them in order
                # candidate ends: a newline that is followed by another record (canonical prefix) or by the end of the
                # output -- an unpinned payload may itself contain any number of newlines
                for m in _REC_END.finditer(text, pos + len(pre)):
                    if match(i + 1, m.start() + 1):
                        return True
                return False
            want = pre + txt + "\n"
            if not text.startswith(want, pos):
                return False
            pos += len(want)
            i += 1
        if pos > best[1]:
            best[0], best[1] = i, pos
        return text[pos:].strip("\n") == ""

    if match(0, 0):
        return []
    i, pos = best
    if i < len(exp):
        pre, txt = exp[i]
        want = pre + ("<unpinned>" if txt is ANY else txt) + "\n"
        return [(prefix + ":lines", "output line %d differs: got %r expected %r" % (i + 1, text[pos:pos + len(want) + 20][:300], want[:300]))]
    return [(prefix + ":extra", "unexpected extra output: %r" % text[pos:][:300])]
