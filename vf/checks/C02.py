"""C02 — exactly the blocks of heights start..min(end,tip) are delivered, once, ascending."""
import os
import random
import shutil

from .. import core, gen, harness, datadir, model, oracles
from ..chain import COINS
from ..core import viol

CALLBACKS = ["csvdump", "unspentcsvdump", "balances", "simplestats", "opreturn"]
RULE = ("bounded-exhaustive over chain length T+1 blocks and every accepted (--start,--end) combination, each run with all five "
        "callbacks; plus sampled windows at heights up to 5,000,000 over sparse indexes. Per run: H1 delivery log checked against "
        "the trace spec (start(s); deliver s..min(e,T) ascending exactly once; complete(last)), every output compared with the "
        "reference model of the slice, file names checked, ranged csvdump compared with the slice of the whole-chain run; a third of "
        "the directories are out-of-order multi-file layouts, a third are partial copies whose out-of-range blk files are missing. "
        "Windows crossing round heights (10^k, 2^k, halving multiples) over sparse indexes. A share of the chains has varied header times (backward steps, future-dated, 32-bit edges) and records longer than their block. distinct = (T, start-kind, end-kind, callback, base-height class) signatures")


def make_chain(seed, coin, nblocks, base=0):
    rng = random.Random("C02chain|%s|%s|%d|%d" % (seed, coin, nblocks, base))
    cb = gen.ChainBuilder(rng, coin, start_height=max(0, base - 1) if base else 0, genesis=(base == 0 and rng.random() < 0.5))
    while len(cb.blocks) < nblocks + (1 if base else 0):
        txs = [cb.spend_tx(rng.randint(1, 2), outs=[cb.out(rng.choice(["p2pkh", "p2sh", "opreturn", "p2pk33", "nonstd"]))
                                                    for _ in range(rng.randint(1, 3))]) for _ in range(rng.randint(0, 2))]
        cb.add_block(txs=txs)
    chain = cb.chain()
    if rng.random() < 0.3:
        gen.vary_times(rng, chain, keep_first=True)
    if rng.random() < 0.3:
        gen.add_slack(rng, chain, coin, share=0.5)      # records longer than their block (bytes behind the block inside the record)
    return chain


def expected_events(chain, s, e):
    sl = model.in_range(chain, s, e)
    return [h for h, _ in sl]


def check_events(events, chain, s, e, v, tag):
    hs = expected_events(chain, s, e)
    starts = [x for x in events if x["ev"] == "start"]
    delivers = [x for x in events if x["ev"] == "deliver"]
    completes = [x for x in events if x["ev"] == "complete"]
    if len(starts) != 1 or starts[0]["height"] != s:
        v.append(viol(tag + ":on_start", "on_start heights %s, expected [%d]" % ([x["height"] for x in starts], s)))
    got = [x["height"] for x in delivers]
    if got != hs:
        kind = "delivery"
        if sorted(got) == hs:
            kind = "order"
        elif len(set(got)) != len(got):
            kind = "duplicate"
        elif hs and got == hs[:-1]:
            kind = "last-missing"
        elif hs and got[:len(hs)] == hs:
            kind = "beyond-range"
        v.append(viol(tag + ":" + kind, "delivered heights %s, expected %s (start=%s end=%s tip=%d)" % (got, hs, s, e, chain[-1][0])))
    else:
        byh = dict(chain)
        for x in delivers:
            if x["hash"] != byh[x["height"]].hash_hex:
                v.append(viol(tag + ":wrong-block", "height %d delivered block %s, expected %s" % (x["height"], x["hash"], byh[x["height"]].hash_hex)))
                break
    if hs:
        if len(completes) != 1 or completes[0]["height"] != hs[-1]:
            v.append(viol(tag + ":on_complete", "on_complete heights %s, expected [%d]" % ([x["height"] for x in completes], hs[-1])))
        if starts and delivers and completes and not (starts[0]["seq"] < delivers[0]["seq"] and delivers[-1]["seq"] < completes[0]["seq"]):
            v.append(viol(tag + ":phase-order", "start/deliver/complete out of order"))
    elif len(completes) != 1:
        v.append(viol(tag + ":on_complete", "on_complete called %d times" % len(completes)))


def case(spec):
    """One (chain, s, e): runs all callbacks."""
    coin, T, s, e, base = spec["coin"], spec["T"], spec["s"], spec["e"], spec.get("base", 0)
    work = os.path.join(spec["work"], "c%d" % spec["n"]) if "n" in spec else spec["work"]
    harness.fresh(work)
    binary = core.build("release")
    chain_all = make_chain(spec["seed"], coin, T + 1, base)
    # for base > 0 the first block (base-1) is only the predecessor record; heights base..base+T are "the chain"
    chain = chain_all
    d = os.path.join(work, "d")
    partial_removed = 0
    blocks_ahead = 0
    if spec.get("n", 0) % 3 == 1 and len(chain_all) >= 3:
        # range handling must not depend on which blk file holds a height: out-of-order multi-file layout
        from .. import layouts
        lrng = random.Random("C02layout|%s" % spec["n"])
        kw, _desc, _ = layouts.make_layout(lrng, chain_all, coin, assign=lrng.choice(["random", "round_robin", "reversed"]), nfiles=lrng.randint(2, 4),
                                           file_order=lrng.choice(["asc", "shuffled"]))
        datadir.write_datadir(d, COINS[coin], **kw)
    elif spec.get("n", 0) % 3 == 2 and (s is not None or e is not None) and len(chain_all) >= 2 and model.in_range(chain_all, s or 0, e):
        # partial copy / pruned node: the blk files that hold only blocks OUTSIDE the range are missing (the index still names them,
        # the record of height start-1 included). Blocks outside the range never contribute, so nothing may depend on their files.
        from .. import layouts
        lrng = random.Random("C02partial|%s" % spec["n"])
        kw, _desc, pl_index = layouts.make_layout(lrng, chain_all, coin, assign="one_per_file")
        datadir.write_datadir(d, COINS[coin], **kw)
        wanted = set(h for h, _ in model.in_range(chain_all, s or 0, e))
        for i, (h, _b) in enumerate(chain_all):
            if h not in wanted:
                os.unlink(os.path.join(d, kw["names"][pl_index[i].file]))
                partial_removed += 1
    elif spec.get("n", 0) % 3 == 0 and spec.get("n", 0) % 2 == 0:
        # a node that is still syncing headers-first: a block downloaded ahead of time sits on disk two or three heights above the tip,
        # the heights in between have no usable record. The tip stays T: "heights s..min(e,T)".
        from ..datadir import Placement, VALID_TRANSACTIONS, HAVE_DATA
        arng = random.Random("C02ahead|%s" % spec["n"])
        pl = harness.simple_layout(chain_all)
        ahead = gen.ChainBuilder(arng, coin, start_height=chain_all[-1][0] + arng.randint(2, 3))
        ahead.prev = gen.rbytes(arng, 32)
        pl.append(Placement(ahead.add_block(n_tx=1), ahead.height - 1, file=1, status=VALID_TRANSACTIONS | HAVE_DATA))
        datadir.write_datadir(d, COINS[coin], pl)
        blocks_ahead = 1
    else:
        datadir.write_datadir(d, COINS[coin], harness.simple_layout(chain_all))
    v, shapes, counters = [], [], {"files_of_out_of_range_blocks_removed": partial_removed, "blocks_downloaded_ahead_of_the_tip": blocks_ahead}
    S = 0 if s is None else s
    tip = chain[-1][0]
    skind = "none" if s is None else ("0" if s == chain[0][0] else ("tip" if s == tip else ("above" if s > tip else "mid")))
    ekind = "none" if e is None else ("below" if e < tip else ("tip" if e == tip else "above"))
    full_blocks = None
    for cbname in spec.get("callbacks", CALLBACKS):
        dump = harness.fresh(os.path.join(work, "o"))
        log = os.path.join(work, "ev.jsonl")
        # --verify needs the coin's real genesis block when height 0 is processed
        real_genesis = chain[0][0] == 0 and chain[0][1].hash_hex == COINS[coin].genesis_hash
        verify = spec.get("verify", False) and (S > 0 or real_genesis)
        p = harness.run_cb(binary, d, coin, cbname, dump, s, e, verify=verify, log=log)
        tag = cbname
        ev = harness.read_events(log)
        counters["runs"] = counters.get("runs", 0) + 1
        counters["deliver_events"] = counters.get("deliver_events", 0) + sum(1 for x in ev if x["ev"] == "deliver")
        if p.rc != 0:
            v.append(viol(tag + ":exit", "exit %s for accepted range start=%s end=%s tip=%d: %s" % (p.rc, s, e, tip, (p.err or p.out)[-300:])))
            continue
        check_events(ev, chain, S, e, v, tag)
        if cbname == "csvdump":
            bad = oracles.check_csvdump(p, dump, chain, coin, S, e)
            # metamorphic: slice of the whole-chain run (only where the whole chain starts at 0)
            if base == 0 and not bad and not partial_removed and model.in_range(chain, S, e):
                dump2 = harness.fresh(os.path.join(work, "o2"))
                p2 = harness.run_cb(binary, d, coin, "csvdump", dump2)
                counters["runs"] += 1
                if p2.rc == 0:
                    full = harness.read_dump(dump2)
                    fb = [t for n, t in full.items() if n.startswith("blocks-")]
                    rb = [t for n, t in harness.read_dump(dump).items() if n.startswith("blocks-")]
                    if fb and rb:
                        hs = set(expected_events(chain, S, e))
                        sl = "".join(ln + "\n" for ln in fb[0].split("\n") if ln and int(ln.split(";")[1]) in hs)
                        if sl != rb[0]:
                            bad.append(("csv:slice", "ranged blocks.csv is not the slice of the whole-chain blocks.csv"))
                        counters["slice_checks"] = counters.get("slice_checks", 0) + 1
        elif cbname == "unspentcsvdump":
            bad = oracles.check_unspent(p, dump, chain, coin, S, e)
        elif cbname == "balances":
            bad = oracles.check_balances(p, dump, chain, coin, S, e)
        elif cbname == "simplestats":
            bad = oracles.check_stats(p, chain, coin, S, e) if model.in_range(chain, S, e) else []
        else:
            bad = oracles.check_opreturn(p, chain, coin, S, e)
        v.extend(viol(sig, det + " [start=%s end=%s tip=%d coin=%s]" % (s, e, tip, coin)) for sig, det in bad)
        shapes.append("T%d|s=%s|e=%s|%s|base=%s" % (min(T, 9), skind, ekind, cbname, "0" if base == 0 else "high"))
    shutil.rmtree(work, ignore_errors=True)
    return {"evaluations": counters.get("runs", 0), "violations": v, "shapes": shapes, "counters": counters,
            "sample": {"coin": coin, "T": T, "start": s, "end": e, "base": base, "delivered": expected_events(chain, S, e)}}


def plan(chk):
    rng = chk.rng("plan")
    maxT = 9 if chk.thorough else 5
    specs = []
    coins = list(COINS)
    n = 0
    for T in range(0, maxT + 1):
        opts = [(None, None)]
        opts += [(s, None) for s in range(0, T + 2)]
        opts += [(None, e) for e in range(1, T + 3)]
        opts += [(s, e) for s in range(0, T + 2) for e in range(s + 1, T + 3)]
        for s, e in opts:
            n += 1
            specs.append({"case": "case", "coin": coins[n % len(coins)], "T": T, "s": s, "e": e, "seed": chk.seed,
                          "verify": (n % 3 == 0), "n": n})
    # sampled windows at large heights (sparse index: only base-1..base+T present)
    for i in range(200 if chk.thorough else 24):
        n += 1
        base = rng.choice([127, 128, 16511, 16512, 2113663, 2113664, rng.randint(200, 5000000), 209999, 210000, 4999990])
        T = rng.randint(0, 6)
        s = base + rng.randint(0, T)
        e = rng.choice([None, s + 1 + rng.randint(0, T + 1)])
        specs.append({"case": "case", "coin": rng.choice(coins), "T": T, "s": s, "e": e, "seed": chk.seed + i, "base": base,
                      "verify": rng.random() < 0.5, "n": n})
    # windows that cross a round height (a clean-up "every 10,000 blocks", a table sized 2^16, a halving interval): sparse index again
    rounds = [1000, 4096, 10000, 20000, 30000, 50000, 65536, 100000, 131072, 200000, 250000, 420000, 500000, 10**6, 2**20, 2**21, 3 * 10**6, 2**22]
    if not chk.thorough:
        rounds = [10000, 65536, 100000] + rng.sample([r for r in rounds if r not in (10000, 65536, 100000)], 6)
    for i, R in enumerate(rounds):
        for s, e in ((R - 2, None), (R - 1, R + 1), (R, None)) if chk.thorough else (((R - 2, None), (R, R + 2)) if i % 2 else ((R - 1, R + 1),)):
            n += 1
            specs.append({"case": "case", "coin": coins[n % len(coins)], "T": 5, "s": s, "e": e, "seed": chk.seed + i, "base": R - 2,
                          "verify": (n % 2 == 0), "n": n})
    return specs


def main():
    chk = core.Check("C02")
    core.build("release")
    core.ldbtool()
    specs = plan(chk)
    for sp in specs:
        sp["work"] = chk.workdir
    for res in core.parallel(case, specs):
        chk.absorb(res)
    chk.finish(RULE, floor={"runs": 100, "deliver_events": 200, "slice_checks": 5},
               assumptions=["range semantics: both bounds inclusive as documented by --help",
                            "--start above the tip: only 'exit 0 and no rows' is checked",
                            "reference model and generators are independent Python code; LevelDB index written by rusty-leveldb 3.0.2 (ldbtool)"],
               exhaustive=False)


def replay(spec):
    core.replay_case("C02", {"case": case}, spec)
