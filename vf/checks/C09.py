"""C09 — --verify accepts exactly the chains whose merkle roots and prev-hash links hold."""
import os
import random
import re
import shutil
import struct

from .. import core, harness, datadir, model, oracles, gen
from ..chain import COINS, COIN_NAMES, Tx, TxIn, TxOut, Block, ZERO32, genesis_block
from ..core import viol
from ..datadir import Placement
from ..gen import rbytes
from ..ser import compact_size

RULE = ("completeness: consistent chains whose blocks have every tx count 1..64 (then random counts up to 600, powers of two and odd "
        "counts at several tree levels), legacy+segwit, transactions with counts/lengths at the CompactSize boundaries, x start offsets (first processed block linked against the retained record "
        "start-1, also when the blocks below --start are pruned index-only records; also with --end alone) x 8 coins (real genesis block at height 0 for bitcoin/testnet3/litecoin/dogecoin) must pass --verify with all outputs "
        "equal to the model. soundness (fault enumeration on the stored bytes): every single-bit flip of the merkle-root field and of the "
        "prev-hash field of chosen blocks, sampled (quick) / all (thorough) single-bit flips of the txid-covered transaction bytes, a "
        "block swapped for a foreign block, a wrong block 0 per coin: the run must exit non-zero, name that height, and leave no "
        "final-named output. A verified run over more than 2^16 blocks and windows crossing round heights (10^k, 2^k, halving multiples; sparse index) must be accepted. Consistent chains with varied header times (backward steps, last block dated before the first, future-dated, 32-bit edges, constant) must be accepted for every --start. distinct = (fault kind, field, position class, coin, start kind) signatures")

ERR_RE = re.compile(r"Error at height (\d+):")


def build(spec):
    rng = random.Random("C09|%s|%s" % (spec["seed"], spec["chain"]))
    coin = spec["coin"]
    g = genesis_block(coin) is not None and spec.get("genesis", True)
    cb = gen.ChainBuilder(rng, coin, genesis=g)
    for n_tx in spec["txcounts"]:
        txs = []
        for _ in range(max(0, n_tx - 1)):
            sw = rng.random() < 0.3
            txs.append(cb.spend_tx(1, outs=[cb.out(rng.choice(["p2pkh", "p2sh", "nonstd"]))], segwit=sw))
        if spec.get("rich"):
            # consistent chains must also be accepted when the txid-covered serialisation has counts / lengths on
            # either side of the CompactSize width boundaries, big scripts and segwit witnesses
            for val in (0xFC, 0xFD, 0xFE, 0xFFFF, 0x10000):
                t = cb.spend_tx(2, outs=[cb.out("p2pkh"), TxOut(3, rbytes(rng, val))], segwit=rng.random() < 0.5)
                t.ins[0].script_sig = rbytes(rng, val)
                t.invalidate()
                txs.append(t)
            for cnt in (0xFC, 0xFD, 0xFE):
                txs.append(Tx(1, [TxIn(rbytes(rng, 32), i, b"", 0xFFFFFFFF) for i in range(cnt)], [cb.out("p2pkh")], 0))
                txs.append(cb.spend_tx(1, outs=[TxOut(i, b"\x51") for i in range(cnt)]))
        cb.add_block(txs=txs)
    chain = cb.chain()
    if spec.get("times"):
        # real chains step backwards in time, carry equal, future-dated and edge-of-range timestamps: no reason to reject a chain
        gen.vary_times(rng, chain, keep_first=g, pattern=spec["times"])
    return chain, g


def pruned_case(spec):
    """pruned-node layout: the blocks below --start exist in the index only (validity level kept, HAVE_DATA/HAVE_UNDO
    cleared, no file position, bytes gone); --verify --start k only needs the hash of k-1 and must accept the chain"""
    from ..datadir import HeaderOnly, VALID_SCRIPTS, OPT_WITNESS
    coin = spec["coin"]
    chain, real_g = build(spec)
    k = spec["start"]
    work = harness.fresh(os.path.join(spec["work"], "c%d" % spec["n"]))
    d = os.path.join(work, "d")
    placements = [Placement(b, h, file=0) for h, b in chain if h >= k]
    pruned = [HeaderOnly(b, h, VALID_SCRIPTS | (OPT_WITNESS if h % 2 else 0), len(b.txs)) for h, b in chain if h < k]
    datadir.write_datadir(d, COINS[coin], placements, header_only=pruned)
    binary = core.build(spec.get("profile", "release"))
    v, runs = [], 0
    for cbname in ("csvdump", "unspentcsvdump"):
        dump = harness.fresh(os.path.join(work, "o"))
        p = harness.run_cb(binary, d, coin, cbname, dump, k, None, verify=True, timeout=300)
        runs += 1
        if p.rc != 0:
            v.append(viol("rejected-consistent-chain", "--verify --start %d rejected a consistent chain whose blocks below %d are pruned (index-only records): %s" % (
                k, k, (p.err or p.out)[-300:].replace("\n", " | "))))
            continue
        bad = oracles.check_csvdump(p, dump, chain, coin, k, None) if cbname == "csvdump" else oracles.check_unspent(p, dump, chain, coin, k, None)
        v.extend(viol("accepted-but-" + sig, det) for sig, det in bad)
    shutil.rmtree(work, ignore_errors=True)
    return {"evaluations": runs, "violations": v, "shapes": ["accept-pruned|%s|start=%d" % (coin, k)],
            "counters": {"runs": runs, "accept_runs": runs, "pruned_predecessor_runs": runs},
            "sample": {"kind": "accept-pruned", "coin": coin, "start": k, "blocks": len(chain)}}


def final_named(dump):
    return [n for n in harness.listing(dump) if n.endswith(".csv")]


def positive_case(spec):
    coin = spec["coin"]
    chain, real_g = build(spec)
    work = harness.fresh(os.path.join(spec["work"], "c%d" % spec["n"]))
    d = os.path.join(work, "d")
    datadir.write_datadir(d, COINS[coin], harness.simple_layout(chain))
    binary = core.build(spec.get("profile", "release"))
    v, runs, shapes = [], 0, []
    tip = chain[-1][0]
    starts = spec.get("starts") or ([0] if real_g else []) + [1, tip // 2, tip]
    ends = spec.get("ends") or [None]
    for s, e in [(s_, e_) for s_ in sorted(set(x for x in starts if 0 <= x <= tip)) for e_ in ends if e_ is None or e_ > s_]:
        if s == 0 and not real_g:
            continue
        for cbname in spec.get("callbacks", ["csvdump"]):
            dump = harness.fresh(os.path.join(work, "o"))
            p = harness.run_cb(binary, d, coin, cbname, dump, s if s else None, e, verify=True, timeout=600)
            runs += 1
            if p.rc != 0:
                v.append(viol("rejected-consistent-chain", "--verify rejected a consistent chain (%s, start=%d, tx counts %s...): %s" % (
                    coin, s, spec["txcounts"][:8], (p.err or p.out)[-300:].replace("\n", " | "))))
                continue
            if cbname == "csvdump":
                bad = oracles.check_csvdump(p, dump, chain, coin, s, e)
            elif cbname == "unspentcsvdump":
                bad = oracles.check_unspent(p, dump, chain, coin, s, e)
            else:
                bad = oracles.check_balances(p, dump, chain, coin, s, e)
            v.extend(viol("accepted-but-" + sig, det) for sig, det in bad)
            shapes.append("accept|%s|start=%s|end=%s|%s" % (coin, "0" if s == 0 else ("tip" if s == tip else "mid"), "none" if e is None else "set", cbname))
    shutil.rmtree(work, ignore_errors=True)
    return {"evaluations": runs, "violations": v, "shapes": shapes,
            "counters": {"runs": runs, "accept_runs": runs, "max_tree_shapes": len(set(spec["txcounts"])), "real_genesis_chains": 1 if real_g else 0},
            "sample": {"kind": "accept", "coin": coin, "txcounts": spec["txcounts"][:12], "real_genesis": real_g}}


def tx_byte_map(block):
    """offsets (within the serialised block) of the txid-covered bytes, with a field label"""
    out = []
    pos = 80 + len(compact_size(len(block.txs)))
    for t in block.txs:
        raw = t.ser()
        if not t.segwit:
            out.extend((pos + i, "tx") for i in range(len(raw)))
        else:
            # version | marker flag | ins outs | witness | locktime : covered = all but marker/flag/witness
            nowit = t.ser_nowit()
            wit_len = len(raw) - len(nowit) - 2
            out.extend((pos + i, "tx") for i in range(4))
            body = len(nowit) - 8
            out.extend((pos + 6 + i, "tx") for i in range(body))
            out.extend((pos + 6 + body + wit_len + i, "tx") for i in range(4))
        pos += len(raw)
    return out


def negative_case(spec):
    """One chain, many faults applied one at a time to the stored bytes of a private data directory."""
    coin = spec["coin"]
    chain, real_g = build(spec)
    work = harness.fresh(os.path.join(spec["work"], "c%d" % spec["n"]))
    d = os.path.join(work, "d")
    pls = harness.simple_layout(chain)
    datadir.write_datadir(d, COINS[coin], pls)
    blk = os.path.join(d, datadir.default_name(0))
    binary = core.build(spec.get("profile", "release"))
    rng = random.Random("C09neg|%s|%s" % (spec["seed"], spec["n"]))
    v, runs, shapes, counters = [], 0, set(), {"faults": 0}
    tip = chain[-1][0]
    byh = {p.height: p for p in pls}
    # ---- fault list
    faults = []
    targets = [h for h in spec["targets"] if h in byh]
    for h in targets:
        pl = byh[h]
        if spec["field"] in ("merkle", "both"):
            faults += [("flip", h, 36 * 8 + b, "merkle") for b in range(256)]
        if spec["field"] in ("prev", "both") and h > 0:
            faults += [("flip", h, 4 * 8 + b, "prev") for b in range(256)]
        if spec["field"] == "tx":
            m = tx_byte_map(pl.block)
            bits = [(off * 8 + b) for off, _ in m for b in range(8)]
            if spec.get("sample_bits"):
                bits = rng.sample(bits, min(len(bits), spec["sample_bits"]))
            faults += [("flip", h, b, "tx") for b in bits]
        if spec["field"] == "swap":
            for other in [o for o in spec.get("swap_with", []) if o in byh and o != h]:
                faults.append(("swap", h, other, "foreign"))
    for kind, h, arg, field in faults:
        pl = byh[h]
        start = spec.get("start")
        if start is None:
            start = 0 if real_g else 1
        if h < start or (spec.get("end") is not None and h > spec["end"]):
            continue
        orig = None
        with open(blk, "r+b") as f:
            if kind == "flip":
                off = pl.offset + arg // 8
                f.seek(off)
                orig = (off, f.read(1))
                f.seek(off)
                f.write(bytes([orig[1][0] ^ (1 << (arg % 8))]))
            else:
                other = byh[arg].block.ser()
                mine = pl.block.ser()
                # foreign block written over this one (must fit: same or smaller length, size prefix patched)
                if len(other) > len(mine):
                    continue
                f.seek(pl.offset - 4)
                orig = (pl.offset - 4, f.read(4 + len(mine)))
                f.seek(pl.offset - 4)
                f.write(struct.pack("<I", len(other)) + other)
        dump = harness.fresh(os.path.join(work, "o"))
        cbname = spec.get("callback", "csvdump")
        p = harness.run_cb(binary, d, coin, cbname, dump, start if start else None, spec.get("end"), verify=True, timeout=300)
        runs += 1
        counters["faults"] += 1
        counters["faults:" + field] = counters.get("faults:" + field, 0) + 1
        where = "%s bit %s of height %d" % (field, arg, h) if kind == "flip" else "height %d replaced by block of height %d" % (h, arg)
        fin = final_named(dump)
        if p.rc == 0:
            v.append(viol("accepted-corruption:" + field, "--verify accepted a corrupted chain (%s; coin=%s start=%s); final files: %s" % (where, coin, start, fin)))
        else:
            m = harness.reported_error_height(p.err)
            if m is not None and m != h:
                v.append(viol("wrong-height:" + field, "corruption at %s reported at height %s: %s" % (where, m, p.err[-200:].replace("\n", " | "))))
            if m is None:
                counters["rejected_without_error_line"] = counters.get("rejected_without_error_line", 0) + 1
            if fin:
                v.append(viol("final-output-after-failure:" + field, "run failed (%s) but final-named files exist: %s" % (where, fin)))
        with open(blk, "r+b") as f:
            f.seek(orig[0])
            f.write(orig[1])
        posc = "first" if h == start else ("tip" if h == tip else "mid")
        shapes.add("reject|%s|%s|%s|start=%s" % (field, posc, coin, "0" if start == 0 else ("1" if start == 1 else "k")))
    # sanity: the restored directory must verify again (guards the harness itself)
    dump = harness.fresh(os.path.join(work, "o"))
    start0 = spec.get("start")
    if start0 is None:
        start0 = 0 if real_g else 1
    p = harness.run_cb(binary, d, coin, "csvdump", dump, start0 if start0 else None, spec.get("end"), verify=True)
    runs += 1
    inc = []
    if p.rc != 0:
        inc.append("restored directory no longer verifies (harness problem): %s" % p.err[-200:])
    shutil.rmtree(work, ignore_errors=True)
    return {"evaluations": runs, "violations": v, "shapes": sorted(shapes), "counters": dict(counters, runs=runs), "inconclusive": inc,
            "sample": {"kind": "reject", "coin": coin, "field": spec["field"], "targets": targets, "faults": counters["faults"]}}


def genesis_case(spec):
    """wrong block 0 must be rejected at height 0 on every coin"""
    coin = spec["coin"]
    rng = random.Random("C09gen|%s|%s" % (spec["seed"], spec["n"]))
    cb = gen.ChainBuilder(rng, coin, genesis=False)
    if spec.get("foreign_genesis"):
        g = genesis_block(spec["foreign_genesis"])
        cb._append(g)
    for _ in range(3):
        cb.add_block(n_tx=1)
    chain = cb.chain()
    work = harness.fresh(os.path.join(spec["work"], "c%d" % spec["n"]))
    d = os.path.join(work, "d")
    datadir.write_datadir(d, COINS[coin], harness.simple_layout(chain))
    binary = core.build("release")
    v = []
    dump = harness.fresh(os.path.join(work, "o"))
    p = harness.run_cb(binary, d, coin, "csvdump", dump, None, None, verify=True)
    fin = final_named(dump)
    m = harness.reported_error_height(p.err)
    if p.rc == 0:
        v.append(viol("accepted-wrong-genesis", "--verify accepted a chain whose block 0 is not the %s genesis block (block 0 = %s)" % (coin, chain[0][1].hash_hex)))
    elif (m is not None and m != 0) or fin:
        v.append(viol("wrong-genesis-misreported", "wrong genesis: %s; final files %s" % (p.err[-200:], fin)))
    # the same chain without --verify and from -s 1 with --verify is fine
    dump = harness.fresh(os.path.join(work, "o"))
    p2 = harness.run_cb(binary, d, coin, "csvdump", dump, 1, None, verify=True)
    if p2.rc != 0:
        v.append(viol("rejected-consistent-chain", "-s 1 --verify rejected a consistent chain: %s" % p2.err[-200:]))
    shutil.rmtree(work, ignore_errors=True)
    return {"evaluations": 2, "violations": v, "shapes": ["genesis-negative|%s|%s" % (coin, spec.get("foreign_genesis") or "random")],
            "counters": {"runs": 2, "faults": 1, "faults:genesis": 1}}


def window_case(spec):
    """consistent chains around a round height R (sparse index R-3..R+4): --verify must accept them whatever the absolute height is"""
    coin, R = spec["coin"], spec["R"]
    rng = random.Random("C09w|%s|%s" % (spec["seed"], R))
    cb = gen.ChainBuilder(rng, coin, start_height=R - 3)
    for _ in range(8):
        cb.add_block(txs=[cb.spend_tx(1, outs=[cb.out(rng.choice(["p2pkh", "p2sh", "nonstd"]))], segwit=rng.random() < 0.3) for _ in range(rng.randint(0, 4))])
    chain = cb.chain()
    work = harness.fresh(os.path.join(spec["work"], "c%d" % spec["n"]))
    d = os.path.join(work, "d")
    datadir.write_datadir(d, COINS[coin], harness.simple_layout(chain))
    binary = core.build("release")
    v, runs, shapes = [], 0, []
    for s, e in ((R - 2, None), (R - 1, R + 1), (R, None), (R + 1, R + 3)):
        for cbname in spec.get("callbacks", ["csvdump"]):
            dump = harness.fresh(os.path.join(work, "o"))
            p = harness.run_cb(binary, d, coin, cbname, dump, s, e, verify=True, timeout=300)
            runs += 1
            if p.rc != 0:
                v.append(viol("rejected-consistent-chain", "--verify -s %d%s rejected a consistent chain around height %d (%s): %s" % (
                    s, "" if e is None else " -e %d" % e, R, coin, (p.err or p.out)[-300:].replace("\n", " | "))))
                continue
            bad = oracles.check_csvdump(p, dump, chain, coin, s, e) if cbname == "csvdump" else oracles.check_unspent(p, dump, chain, coin, s, e)
            v.extend(viol("accepted-but-" + sig, det) for sig, det in bad)
            shapes.append("accept-window|%s|R=%d" % (coin, R))
    shutil.rmtree(work, ignore_errors=True)
    return {"evaluations": runs, "violations": v[:4], "shapes": shapes, "counters": {"runs": runs, "accept_runs": runs, "round_height_windows": 1},
            "sample": {"kind": "accept-window", "coin": coin, "R": R}}


def dispatch(spec):
    return {"accept": positive_case, "reject": negative_case, "genesis": genesis_case, "pruned": pruned_case, "window": window_case}[spec["case"]](spec)


def plan(chk):
    rng = chk.rng("plan")
    specs = []
    n = 0
    # completeness
    for ci, coin in enumerate(COIN_NAMES):
        n += 1
        specs.append(dict(case="accept", coin=coin, seed=chk.seed, chain="all64-%d" % ci, n=n, txcounts=list(range(1, 65)),
                          callbacks=["csvdump", "unspentcsvdump"] if ci % 2 else ["csvdump", "balances"]))
        n += 1
        big = [rng.choice([65, 100, 127, 128, 129, 255, 256, 257, 511, 512, 513, 600, rng.randint(65, 600)]) for _ in range(6 if chk.thorough else 3)]
        specs.append(dict(case="accept", coin=coin, seed=chk.seed, chain="big-%d" % ci, n=n, txcounts=big))
    # "for any transaction count": thousands of txs per block, counts on both sides of 2^10, 2^11, 2^12 and odd counts at deep levels
    huge = [1023, 1025, 1300, 1536, 1537, 2047, 2049, 2500, 4095, 4097]
    for ci in range(6 if chk.thorough else 2):
        n += 1
        cnts = rng.sample(huge, 5) + [rng.randint(1025, 6000 if chk.thorough else 3000)]
        specs.append(dict(case="accept", coin=COIN_NAMES[(chk.seed + ci * 3) % 8], seed=chk.seed, chain="huge-%d" % ci, n=n, txcounts=cnts))
    for ci, coin in enumerate(COIN_NAMES if chk.thorough else COIN_NAMES[::3]):
        n += 1
        specs.append(dict(case="accept", coin=coin, seed=chk.seed, chain="rich-%d" % ci, n=n, txcounts=[2, 1, 3], rich=True))
    for i in range(16 if chk.thorough else 4):
        n += 1
        specs.append(dict(case="pruned", coin=COIN_NAMES[(i * 3) % 8], seed=chk.seed, chain="pruned-%d" % i, n=n, txcounts=[2, 1, 3, 2, 4, 1], genesis=False,
                          start=rng.randint(1, 4)))
    for i in range(200 if chk.thorough else 10):
        n += 1
        specs.append(dict(case="accept", coin=rng.choice(COIN_NAMES), seed=chk.seed, chain="rnd-%d" % i, n=n,
                          txcounts=[rng.randint(1, 40) for _ in range(rng.randint(2, 12))], profile="debug" if i % 3 == 0 else "release",
                          ends=[None, 2, 1] if i % 2 == 0 else None))
    # soundness
    tx_counts = [1, 2, 3, 5]
    for ci, coin in enumerate(COIN_NAMES):
        for field in ("merkle", "prev"):
            if not chk.thorough and (ci + (field == "prev")) % 4:
                continue   # quick: 2 coins per field -> all 256 bits of two blocks each
            n += 1
            specs.append(dict(case="reject", coin=coin, seed=chk.seed, chain="neg-%d" % ci, n=n, txcounts=tx_counts, field=field,
                              targets=[1, 3] if field == "prev" else [1, 4]))
            n += 1
            specs.append(dict(case="reject", coin=coin, seed=chk.seed, chain="neg-%d" % ci, n=n, txcounts=tx_counts, field=field,
                              targets=[2], start=2))
    # --verify together with --end only (range starting at height 0): corruption inside the range must still be rejected
    for ci, coin in enumerate(["bitcoin", "litecoin", "testnet3", "dogecoin"] if chk.thorough else ["bitcoin", "litecoin"]):
        for field in ("merkle", "prev"):
            n += 1
            specs.append(dict(case="reject", coin=coin, seed=chk.seed, chain="negend-%d" % ci, n=n, txcounts=tx_counts, field=field,
                              targets=[1, 2], end=3, profile="debug" if field == "prev" else "release"))
    if chk.thorough:
        # every bit of every tx byte of a 4-block chain, split over workers by target block
        for ci, coin in enumerate(COIN_NAMES[:4]):
            for h in (1, 2, 3, 4):
                n += 1
                specs.append(dict(case="reject", coin=coin, seed=chk.seed, chain="neg-%d" % ci, n=n, txcounts=tx_counts, field="tx", targets=[h]))
    else:
        for i in range(12):
            n += 1
            specs.append(dict(case="reject", coin=COIN_NAMES[i % 8], seed=chk.seed, chain="negtx-%d" % i, n=n, txcounts=[2, 3, 4], field="tx",
                              targets=[1 + i % 3], sample_bits=50, start=(1 + i % 3) if i % 4 == 0 else None))
    for i, coin in enumerate(COIN_NAMES):
        n += 1
        specs.append(dict(case="reject", coin=coin, seed=chk.seed, chain="swap-%d" % i, n=n, txcounts=[3, 3, 3, 3, 3], field="swap",
                          targets=[2, 4], swap_with=[1, 3, 5]))
        n += 1
        specs.append(dict(case="genesis", coin=coin, seed=chk.seed, n=n))
        n += 1
        other = "bitcoin" if coin != "bitcoin" else "litecoin"
        specs.append(dict(case="genesis", coin=coin, seed=chk.seed, n=n, foreign_genesis=other))
    for i, pat in enumerate(["backsteps", "last-before-first", "future", "edges", "constant"] * (3 if chk.thorough else 1)):
        n += 1
        specs.append(dict(case="accept", coin=COIN_NAMES[(chk.seed + i) % 8], seed=chk.seed + i, chain="times-%d" % i, n=n, txcounts=[1, 2, 3, 1, 4, 2, 1, 5, 2, 3, 1, 2, 1, 1],
                          times=pat, starts=[0, 1, 5, 9, 12, 13], ends=[None, 12], callbacks=["csvdump", "unspentcsvdump"] if i % 2 else ["csvdump", "balances"]))
    rounds = [1000, 4096, 10000, 20000, 50000, 65536, 100000, 131072, 210000, 250000, 420000, 500000, 10**6, 2**20, 2**21, 2**22]
    for i, R in enumerate(rounds if chk.thorough else [10000, 65536, 100000] + rng.sample([r for r in rounds if r not in (10000, 65536, 100000)], 4)):
        n += 1
        specs.append(dict(case="window", coin=COIN_NAMES[(chk.seed + i) % 8], seed=chk.seed, n=n, R=R,
                          callbacks=["csvdump", "unspentcsvdump"] if chk.thorough else ["csvdump"]))
    return specs


def _dispatch(spec):
    from .. import longrun
    return longrun.long_case(spec) if spec.get("case") == "long" else dispatch(spec)


def main():
    chk = core.Check("C09", level="fault_enumeration")
    core.build("release")
    core.build("debug")
    core.ldbtool()
    specs = plan(chk)
    for sp in specs:
        sp["work"] = chk.workdir
    specs.sort(key=lambda s: 0 if s["case"] == "reject" else 1)
    from ..chain import COIN_NAMES
    specs.insert(0, dict(case="long", callback="csvdump", coin=COIN_NAMES[(chk.seed + 5) % 8], seed=chk.seed, n=0, blocks=(140000 if chk.thorough else 70000), verify=True, work=chk.workdir))
    specs[0]["callback"] = ["csvdump", "unspentcsvdump", "balances", "simplestats"][chk.seed % 4]
    for res in core.parallel(_dispatch, specs):
        chk.absorb(res)
    chk.finish(RULE, floor={"accept_runs": 40, "faults": 1000, "faults:merkle": 500, "faults:prev": 500, "faults:tx": 300, "faults:foreign": 10,
                            "faults:genesis": 8, "real_genesis_chains": 4, "max_tree_shapes": 64},
               assumptions=["a flip that makes the block unparsable counts as rejected (non-zero exit); the height is checked whenever an 'Error at height' line is printed",
                            "corruption is applied to the stored block bytes; the index keeps the original hash, as a node's index would",
                            "namecoin/myriadcoin/unobtanium/noteblockchain genesis blocks cannot be rebuilt offline: positives start at height 1 there"],
               extra={"fault_space": "single-bit flips of merkle/prev fields: all 256 bits per targeted block; tx bytes: sampled (quick) or all (thorough)"})


def replay(spec):
    from .. import longrun
    core.replay_case("C09", {"accept": positive_case, "reject": negative_case, "genesis": genesis_case, "pruned": pruned_case, "window": window_case, "long": longrun.long_case}, spec)
