"""C17 — open blk files stay bounded by the files overlapping the current height."""
import os
import random
import shutil

from .. import core, harness, datadir, model, oracles, layouts, gen
from ..chain import COINS, COIN_NAMES
from ..core import viol

RULE = ("chains spread over 1..300 (thorough: up to 3000) blk files in layouts with disjoint height spans (one block per file, contiguous "
        "runs, also stored in arrival instead of height order inside each file), overlapping spans, two files interleaved height by height, a file revisited after a long gap, x ranges starting/stopping "
        "inside a file. (1) trace spec over the H2 census of /proc/self/fd taken after every block: the set of descriptors open on blk*.dat "
        "files must be a subset of the files that still hold a block of a higher height (computed from the full index); (2) black-box: "
        "N* = smallest RLIMIT_NOFILE with which the single-file layout of the same chain succeeds (bisection), then every disjoint-span "
        "layout must succeed under N*+2 and every pairwise-interleaved layout under N*+3; outputs always compared with the model. "
        "Ranged runs include --verify ranges that begin right behind the last block of a file. distinct = (layout kind, #files class, range kind, observation kind) signatures")


def build_layout(rng, chain, kind, nfiles):
    n = len(chain)
    if kind == "one_per_file":
        return layouts.make_layout(rng, chain, chain_coin(chain), assign="one_per_file", nfiles=n)
    if kind == "contiguous":
        return layouts.make_layout(rng, chain, chain_coin(chain), assign="contiguous", nfiles=nfiles)
    if kind in ("contiguous-shuffled", "contiguous-reversed"):
        # disjoint height spans, but blocks stored inside each file in arrival (not height) order
        return layouts.make_layout(rng, chain, chain_coin(chain), assign="contiguous", nfiles=nfiles,
                                   file_order="shuffled" if kind.endswith("shuffled") else "desc")
    if kind == "interleaved2":
        return layouts.make_layout(rng, chain, chain_coin(chain), assign="interleaved2", nfiles=nfiles)
    if kind == "round_robin":
        return layouts.make_layout(rng, chain, chain_coin(chain), assign="round_robin", nfiles=nfiles)
    if kind == "single":
        return layouts.make_layout(rng, chain, chain_coin(chain), assign="single")
    raise KeyError(kind)


_COIN = {}


def chain_coin(chain):
    return _COIN["coin"]


def revisit_layout(rng, chain, coin):
    """file 0 holds the first and the last quarter, file 1.. the middle in contiguous runs"""
    kw, desc, pl_index = layouts.make_layout(rng, chain, coin, assign="contiguous", nfiles=6)
    n = len(chain)
    q = max(1, n // 4)
    first_file = kw["placements"][0].file
    # move the last q blocks into the first file (appended after its blocks)
    tail_idx = [i for i, p in enumerate(kw["placements"]) if p.height >= chain[-q][0]]
    for i in tail_idx:
        old = kw["placements"][i].file
        kw["order"][old].remove(i)
        kw["placements"][i].file = first_file
        kw["order"][first_file].append(i)
    kw["order"] = {f: idx for f, idx in kw["order"].items() if idx}
    kw["names"] = {f: nm for f, nm in kw["names"].items() if f in kw["order"]}
    desc = dict(desc, assign="revisit")
    return kw, desc, pl_index


def max_heights(kw):
    """highest ACTIVE-chain height per file (records that lose their height do not count as 'a block yet to come')"""
    from ..datadir import ACTIVE
    mh = {}
    for p in kw["placements"]:
        if p.indexed and (p.status & ~128) == ACTIVE:
            mh[p.file] = max(mh.get(p.file, -1), p.height)
    return mh


def census_check(events, kw, v, desc):
    """open(h) subset of {f : maxheight(f) > h}"""
    mh = max_heights(kw)
    num_of = {nm: f for f, nm in kw["names"].items()}
    n = 0
    worst = 0
    for e in events:
        if e["ev"] != "fds":
            continue
        n += 1
        h = e["height"]
        open_files = [num_of.get(os.path.basename(p)) for p in e["blk"]]
        worst = max(worst, len(open_files))
        stale = [f for f in open_files if f is not None and mh.get(f, -1) <= h]
        if stale:
            v.append(viol("census:stale-descriptor", "after height %d descriptors are still open on %s whose highest block is at height %s [layout=%s]" % (
                h, [kw["names"][f] for f in stale], [mh[f] for f in stale], desc)))
            break
    return n, worst


def run_once(binary, d, coin, chain, work, s=None, e=None, nofile=None, log=None, tag="run", verify=False):
    dump = harness.fresh(os.path.join(work, "o"))
    p = harness.run_cb(binary, d, coin, "csvdump", dump, s, e, verify=verify, log=log, rlimits={"RLIMIT_NOFILE": nofile} if nofile else None, timeout=600)
    bad = oracles.check_csvdump(p, dump, chain, coin, s or 0, e)
    return p, bad


def case(spec):
    coin = spec["coin"]
    _COIN["coin"] = coin
    crng = random.Random("C17chain|%s|%s" % (spec["chain_seed"], coin))
    if spec["n"] % 3 == 0 and spec["blocks"] <= 400:
        # blocks of every size class: smaller than, about and beyond the 32 KiB read buffer (how a block is fetched must not matter
        # for when its file is closed)
        chain = layouts.layout_chain(crng, coin, nblocks=spec["blocks"], big_every=crng.choice([2, 3, 5]))
    else:
        chain = gen.simple_chain(crng, coin, spec["blocks"], max_tx=1)
    lrng = random.Random("C17layout|%s|%s" % (spec["chain_seed"], spec["n"]))
    kind = spec["kind"]
    if kind == "revisit":
        kw, desc, pl_index = revisit_layout(lrng, chain, coin)
    else:
        kw, desc, pl_index = build_layout(lrng, chain, kind, spec.get("nfiles", 4))
    kw["index_opts"] = {}
    ncomp = 0
    if spec["n"] % 2 == 0 and kind != "single":
        # index records that lose their height (stale siblings sorting before the active block, failed blocks) stored as the
        # last block of a file, header-only records: they must not keep a file open (nor get delivered)
        ncomp = layouts.add_harmless_competitors(lrng, chain, coin, kw, count=max(3, len(kw["order"]) // 2))
    finfo = 0
    if spec["n"] % 4 in (0, 1):
        # Bitcoin Core's per-file records 'f'+nFile (CBlockFileInfo: nBlocks nSize nUndoSize nHeightFirst nHeightLast nTimeFirst nTimeLast).
        # Core's nHeightLast counts every block ever written to the file (stale, failed ones too) and is never lowered: it can lie far above
        # the highest active-chain block of the file. Which blocks are yet to come is decided by the block records alone.
        from ..ser import core_varint
        import struct
        stored = {}
        for pl in kw["placements"]:
            stored.setdefault(pl.file, []).append(pl.height)
        keys = list(kw.get("extra_keys") or [])
        for fno, hs in stored.items():
            if fno < 2**31:
                last = max(hs) + lrng.choice([0, 0, 1, 7, 100000])
                keys.append((b"f" + struct.pack("<i", fno), core_varint(len(hs)) + core_varint(10000) + core_varint(0) + core_varint(min(hs)) + core_varint(last)
                             + core_varint(1500000000) + core_varint(1500009999)))
                finfo += 1
        keys.append((b"l", struct.pack("<i", max(f for f in stored if f < 2**31) if any(f < 2**31 for f in stored) else 0)))
        kw["extra_keys"] = keys
    work = harness.fresh(os.path.join(spec["work"], "c%d" % spec["n"]))
    d = os.path.join(work, "d")
    xor_key = bytes(lrng.randrange(1, 256) for _ in range(8)) if spec["n"] % 3 == 0 else None   # reopened files must keep their key
    datadir.write_datadir(d, COINS[coin], xor_key=xor_key, **kw)
    binary = core.build("release")
    v, counters, shapes = [], {"runs": 0, "xor_obfuscated_layouts": 1 if xor_key else 0, "losing_index_records": ncomp, "file_info_records": finfo}, []
    nf = desc["files"]
    fclass = "1" if nf == 1 else ("2-9" if nf < 10 else ("10-99" if nf < 100 else "100+"))
    tip = chain[-1][0]
    ranges = [(None, None, "full")]
    if spec.get("ranges", True) and tip > 4:
        ranges += [(lrng.randint(1, tip - 2), None, "start-inside"), (None, lrng.randint(2, tip - 1), "stop-inside"),
                   (tip // 3, max(tip // 3 + 1, 2 * tip // 3), "window")]
    if spec.get("ranges", True) and tip > 4:
        # ranges that begin right behind the last block of a file, with --verify (which looks at the record of height start-1): a file
        # that holds no block of the range has no block yet to come
        top = {}
        for pl in kw["placements"]:
            if pl.indexed and pl.status == datadir.ACTIVE:
                top[pl.file] = max(top.get(pl.file, -1), pl.height)
        firsts = sorted(h + 1 for h in top.values() if 0 < h + 1 <= tip)
        for s0 in lrng.sample(firsts, min(2, len(firsts))):
            ranges.append((s0, None, "verify-start-behind-a-file"))
        ranges.append((lrng.randint(1, tip - 1), None, "verify-start-inside"))
    for s, e, rk in ranges:
        log = os.path.join(work, "ev.jsonl")
        p, bad = run_once(binary, d, coin, chain, work, s, e, log=log, verify=rk.startswith("verify"))
        counters["runs"] += 1
        v.extend(viol("census-run:" + sig, "%s [layout=%s range=%s..%s]" % (det, desc, s, e)) for sig, det in bad)
        ev = harness.read_events(log)
        n, worst = census_check(ev, kw, v, desc)
        counters["census_events"] = counters.get("census_events", 0) + n
        counters["max_open_blk_fds_seen"] = max(counters.get("max_open_blk_fds_seen", 0), worst)
        counters["reopens"] = counters.get("reopens", 0) + max(0, sum(1 for x in ev if x["ev"] == "blk_open") - len({x["path"] for x in ev if x["ev"] == "blk_open"}))
        shapes.append("%s|f%s|%s|census" % (kind, fclass, rk))
    # black-box descriptor limit
    if spec.get("rlimit"):
        single = os.path.join(work, "single")
        kw1, desc1, _ = build_layout(lrng, chain, "single", 1)
        kw1["index_opts"] = {}
        datadir.write_datadir(single, COINS[coin], **kw1)
        lo, hi = 3, 64
        ok_hi, _ = run_once(binary, single, coin, chain, work, nofile=hi)
        counters["runs"] += 1
        if ok_hi.rc != 0:
            return {"evaluations": counters["runs"], "violations": v, "counters": counters, "shapes": shapes,
                    "inconclusive": ["single-file layout does not run under RLIMIT_NOFILE=64: %s" % (ok_hi.err or ok_hi.out)[-200:]]}
        while lo < hi:
            mid = (lo + hi) // 2
            p, bad = run_once(binary, single, coin, chain, work, nofile=mid)
            counters["runs"] += 1
            if p.rc == 0 and not bad:
                hi = mid
            else:
                lo = mid + 1
        nstar = lo
        counters["nstar_calibrations"] = 1
        slack = 2 if kind in ("one_per_file", "contiguous", "single", "contiguous-shuffled", "contiguous-reversed") else (3 if kind in ("interleaved2", "revisit") else None)
        if slack is not None:
            p, bad = run_once(binary, d, coin, chain, work, nofile=nstar + slack)
            counters["runs"] += 1
            counters["rlimit_runs"] = 1
            if p.rc != 0:
                v.append(viol("rlimit:fails-under-limit", "%d-file %s layout fails under RLIMIT_NOFILE=%d although the single-file layout of the same chain needs only %d: %s" % (
                    nf, kind, nstar + slack, nstar, (p.err or p.out)[-300:].replace("\n", " | "))))
            else:
                v.extend(viol("rlimit:" + sig, "%s [layout=%s RLIMIT_NOFILE=%d]" % (det, desc, nstar + slack)) for sig, det in bad)
            shapes.append("%s|f%s|rlimit=N*+%d" % (kind, fclass, slack))
            counters["nstar_value_sum"] = nstar
    shutil.rmtree(work, ignore_errors=True)
    return {"evaluations": counters["runs"], "violations": v, "counters": counters, "shapes": shapes,
            "sample": {"coin": coin, "layout": desc, "blocks": len(chain), "kind": kind}}


def plan(chk):
    rng = chk.rng("plan")
    specs = []
    n = 0
    big = 300   # more files than fit in a u8 counter, in both tiers
    kinds = [("one_per_file", big, None), ("one_per_file", 40, None), ("contiguous", 60, 12), ("contiguous", 40, 2), ("interleaved2", 40, 8),
             ("interleaved2", 24, 2), ("round_robin", 30, 5), ("revisit", 40, None), ("single", 30, None),
             ("contiguous-shuffled", 80, 20), ("contiguous-reversed", 60, 12), ("contiguous-shuffled", 30, 3)]
    if chk.thorough:
        # "thousands of blk files": more files than the default descriptor limit of 1024
        kinds = kinds + [("one_per_file", 2500, None), ("contiguous-shuffled", 3000, 1200)]
    reps = 4 if chk.thorough else 1
    for rep in range(reps):
        for kind, blocks, nfiles in kinds:
            n += 1
            if blocks > 1000 and rep > 0:
                continue
            specs.append(dict(case="case", coin=COIN_NAMES[n % 8], chain_seed=chk.seed * 100 + n, n=n, kind=kind, blocks=blocks, nfiles=nfiles or 4,
                              rlimit=True, ranges=blocks <= 1000))
    for i in range(40 if chk.thorough else 6):
        n += 1
        kind = rng.choice(["one_per_file", "contiguous", "interleaved2", "round_robin", "revisit", "contiguous-shuffled", "contiguous-reversed"])
        specs.append(dict(case="case", coin=rng.choice(COIN_NAMES), chain_seed=chk.seed * 100 + n, n=n, kind=kind, blocks=rng.randint(8, 60),
                          nfiles=rng.randint(2, 20), rlimit=(i % 2 == 0)))
    return specs


def main():
    chk = core.Check("C17")
    core.build("release")
    core.ldbtool()
    specs = plan(chk)
    for sp in specs:
        sp["work"] = chk.workdir
    for res in core.parallel(case, specs):
        chk.absorb(res)
    chk.finish(RULE, floor={"census_events": 500, "rlimit_runs": 5, "nstar_calibrations": 5, "max_open_blk_fds_seen": 1},
               assumptions=["the census hook reads /proc/self/fd (real descriptors), not the program's own bookkeeping",
                            "a ranged run may keep a file open whose highest block lies beyond --end (the statement's bound uses 'a height yet to come')",
                            "the index is kept small (log only) so that index loading does not dominate the calibrated descriptor need N*"])


def replay(spec):
    core.replay_case("C17", {"case": case}, spec)
