"""C04 — only active-chain blocks are delivered; stale and header-only records never are."""
import os
import random
import shutil

from .. import core, harness, datadir, model, oracles, gen
from ..chain import COINS, COIN_NAMES, Block, ZERO32
from ..core import viol
from ..datadir import (Placement, HeaderOnly, ACTIVE, VALID_HEADER, VALID_TREE, VALID_TRANSACTIONS, VALID_CHAIN, VALID_SCRIPTS, HAVE_DATA, HAVE_UNDO,
                       FAILED_VALID, FAILED_CHILD, OPT_WITNESS)
from ..gen import rbytes

RULE = ("block indexes holding an active chain plus: header-only records (VALID_TREE / VALID_HEADER, no file position — real conditional "
        "CDiskBlockIndex layout) at, below and beyond the tip; failed records without data; and ONE data-bearing competitor class per case: "
        "never-connected stale sibling (VALID_TRANSACTIONS|HAVE_DATA), failed block with data (FAILED_VALID / FAILED_CHILD), once-active "
        "reorged-out branch (VALID_SCRIPTS|HAVE_DATA|HAVE_UNDO) of length 1..3, at an occupied height or beyond the tip, its hash ground "
        "(mixed cases combine several competitors that must all lose: failed ones in either order, others sorting before) "
        "(nonce) to sort before or after the active block's key in LevelDB order. Real runs of the callbacks: the H1 delivery log must be "
        "exactly the active chain with every prev-hash linking to the block delivered before, and every output must equal the model of "
        "the active chain alone. Bulk cases: 9,000-140,000 header-only records above the tip (headers-first sync) with losing competitors at two thirds of the heights. Grow cases: between runs a later database session of the node connects more blocks (records in LevelDB's log); every run must deliver the active chain as of then. A third of the small indexes have churn (rewritten keys, deleted ghost records). distinct = (competitor class, position, key order, branch length, extras) signatures")

CALLBACKS = ["csvdump", "unspentcsvdump", "balances", "simplestats", "opreturn"]
# deviations that correspond to a recorded finding shape (whether they are suppressed is decided by KNOWN_FINDINGS.txt)
KNOWN_SHAPES = {"%s:%s" % (c, p) for c in ("stale_with_data", "reorged_out", "failed_with_data")
                for p in ("occupied_height:after_active", "beyond_tip:n/a")}
CLASSES = {
    "none": None,
    "stale_with_data": VALID_TRANSACTIONS | HAVE_DATA,
    "failed_with_data": VALID_TRANSACTIONS | HAVE_DATA | FAILED_VALID,
    "failed_child_with_data": VALID_TRANSACTIONS | HAVE_DATA | FAILED_CHILD,
    "reorged_out": VALID_SCRIPTS | HAVE_DATA | HAVE_UNDO,
}
REAL_VERSIONS = [1, 2, 3, 4, 0x20000000, 0x20000004, 0x27FFE000, 0x3FFFE000]


def competitor_block(rng, coin, prev_hash, height, want, ref_hash):
    """A block building on prev_hash whose hash sorts before/after ref_hash (LevelDB compares the raw key bytes)."""
    cb = gen.ChainBuilder(rng, coin, start_height=height)
    cb.prev = prev_hash
    b = cb.add_block(n_tx=rng.randint(0, 2), version=rng.choice([1, 2, 4]))
    if want is None or ref_hash is None:
        return b
    for attempt in range(200000):
        if (want == "after" and b.hash > ref_hash) or (want == "before" and b.hash < ref_hash):
            return b
        b.nonce = (b.nonce + 1) & 0xFFFFFFFF
        b.invalidate()
    raise core.Inconclusive("could not grind a competitor hash")


def build(spec):
    rng = random.Random("C04|%s|%s" % (spec["seed"], spec["n"]))
    coin = spec["coin"]
    T = spec.get("blocks", 8)
    cb = gen.ChainBuilder(rng, coin)
    for _ in range(T):
        txs = [cb.spend_tx(rng.randint(1, 2), outs=[cb.out(rng.choice(["p2pkh", "p2sh", "opreturn", "p2pk33"])) for _ in range(rng.randint(1, 3))]) for _ in range(rng.randint(0, 2))]
        cb.add_block(txs=txs, version=rng.choice([1, 2, 4]))
    chain = cb.chain()
    byh = dict(chain)
    tip = chain[-1][0]
    placements = [Placement(b, h, file=0, status=ACTIVE | (OPT_WITNESS if rng.random() < 0.5 else 0)) for h, b in chain]
    header_only = []
    cls, pos, order, length = spec["cls"], spec["pos"], spec["order"], spec.get("length", 1)
    competitors = []
    if cls == "mixed_harmless":
        # any mix of competitors that the loader must cope with today: failed blocks with data in either key order,
        # stale / reorged-out blocks sorting BEFORE the active block, at several occupied heights at once
        heights = rng.sample(range(1, tip + 1), min(tip, rng.randint(2, 5)) if not spec.get("bulk") else max(2, (tip * 2) // 3))
        for h in heights:
            for c2, o2 in rng.sample([("failed_with_data", "after"), ("failed_child_with_data", "before"), ("failed_with_data", "before"),
                                      ("stale_with_data", "before"), ("reorged_out", "before")], rng.randint(1, 3)):
                b = competitor_block(rng, coin, byh[h - 1].hash, h, o2, byh[h].hash)
                competitors.append((h, b))
                placements.append(Placement(b, h, file=rng.choice([0, 1]), status=CLASSES[c2]))
        for k in range(rng.randint(0, 2)):
            b = competitor_block(rng, coin, byh[tip].hash, tip + 1 + k, None, None)
            competitors.append((tip + 1 + k, b))
            placements.append(Placement(b, tip + 1 + k, file=1, status=CLASSES[rng.choice(["failed_with_data", "failed_child_with_data"])]))
    elif cls != "none":
        status = CLASSES[cls]
        if pos == "occupied_height":
            h0 = rng.randint(1, tip - length + 1) if not spec.get("at_tip") else tip - length + 1
        else:
            h0 = tip + 1
        prev = byh[h0 - 1].hash
        for k in range(length):
            h = h0 + k
            ref = byh[h].hash if h in byh else None
            b = competitor_block(rng, coin, prev, h, order if ref is not None else None, ref)
            competitors.append((h, b))
            placements.append(Placement(b, h, file=rng.choice([0, 1]), status=status))
            prev = b.hash
    # harmless extras
    extras = spec.get("extras", [])
    for kind in extras:
        if kind == "header_only_occupied":
            h = rng.randint(1, tip)
            b = Block(rng.choice(REAL_VERSIONS), byh[h - 1].hash, rng.getrandbits(31), 0x1D00FFFF, rng.getrandbits(32), [], merkle=rbytes(rng, 32))
            header_only.append(HeaderOnly(b, h, VALID_TREE, 0))
        elif kind == "header_only_beyond":
            prev = byh[tip].hash
            for k in range(rng.randint(1, 4)):
                b = Block(rng.choice(REAL_VERSIONS), prev, rng.getrandbits(31), 0x1D00FFFF, rng.getrandbits(32), [], merkle=rbytes(rng, 32))
                header_only.append(HeaderOnly(b, tip + 1 + k, rng.choice([VALID_TREE, VALID_HEADER]), rng.choice([0, 0, 5])))
                prev = b.hash
        elif kind == "header_only_below":
            b = Block(rng.choice(REAL_VERSIONS), rbytes(rng, 32), rng.getrandbits(31), 0x1D00FFFF, rng.getrandbits(32), [], merkle=rbytes(rng, 32))
            header_only.append(HeaderOnly(b, 0, VALID_TREE, 0))
        elif kind in ("undo_only_occupied", "undo_only_beyond"):
            # undo data on disk, block data not (HAVE_UNDO without HAVE_DATA), validity below VALID_CHAIN: not a block that can be delivered.
            # Its key sorts after the active block's, its undo position points at a real block of blk00000.dat
            h = rng.randint(1, tip) if kind == "undo_only_occupied" else tip + 1
            b = competitor_block(rng, coin, byh[h - 1].hash, h, "after" if h in byh else None, byh[h].hash if h in byh else None)
            header_only.append(HeaderOnly(b, h, rng.choice([VALID_TREE, VALID_TRANSACTIONS]) | HAVE_UNDO | rng.choice([0, OPT_WITNESS]), len(b.txs), nfile=0, undo_pos=8))
        elif kind == "data_beyond_gap":
            # a block downloaded ahead of time (headers-first sync): data on disk at tip+2 / tip+3, the heights in between have no data
            gap = rng.randint(2, 3)
            prev = byh[tip].hash
            for k in range(1, gap):
                hb = Block(rng.choice(REAL_VERSIONS), prev, rng.getrandbits(31), 0x1D00FFFF, rng.getrandbits(32), [], merkle=rbytes(rng, 32))
                if rng.random() < 0.7:
                    header_only.append(HeaderOnly(hb, tip + k, VALID_TREE, 0))
                prev = hb.hash
            b = competitor_block(rng, coin, prev, tip + gap, None, None)
            competitors.append((tip + gap, b))
            placements.append(Placement(b, tip + gap, file=1, status=rng.choice([VALID_TRANSACTIONS | HAVE_DATA, ACTIVE])))
        elif kind == "bulk_headers":
            # a node in headers-first sync: tens of thousands of header-only records above the tip (the index loader then works on a
            # number of records no small test index has: chunked / parallel decoding, table growth, early-exit heuristics)
            prev = byh[tip].hash
            nonce0 = rng.getrandbits(20)
            merkle = rbytes(rng, 32)
            for k in range(spec["bulk"]):
                b = Block(4, prev, 1600000000 + k, 0x1D00FFFF, nonce0 + k, [], merkle=merkle)
                header_only.append(HeaderOnly(b, tip + 1 + k, VALID_TREE, 0))
                prev = b.hash
        elif kind == "failed_no_data":
            h = rng.randint(1, tip + 1)
            b = Block(rng.choice(REAL_VERSIONS), byh[h - 1].hash, rng.getrandbits(31), 0x1D00FFFF, rng.getrandbits(32), [], merkle=rbytes(rng, 32))
            header_only.append(HeaderOnly(b, h, VALID_TREE | rng.choice([FAILED_VALID, FAILED_CHILD]), rng.choice([0, 3])))
    rng.shuffle(placements)
    # files: keep physical order by height within each file for readability
    placements.sort(key=lambda p: (p.file, p.height))
    return chain, placements, header_only, competitors


def signature(spec):
    if spec["cls"] == "mixed_harmless":
        return "mixed-harmless-competitors"
    if spec["cls"] == "none":
        return "no-data-competitor:" + "+".join(sorted(set(spec.get("extras", [])))) or "none"
    cls = "failed_with_data" if spec["cls"].startswith("failed") else spec["cls"]
    order = spec["order"] + "_active" if spec["pos"] == "occupied_height" else "n/a"
    return "%s:%s:%s" % (cls, spec["pos"], order)


def case(spec):
    coin = spec["coin"]
    chain, placements, header_only, competitors = build(spec)
    work = harness.fresh(os.path.join(spec["work"], "c%d" % spec["n"]))
    d = os.path.join(work, "d")
    iopts = {"shuffle_rng": random.Random(spec["n"])} if spec["n"] % 2 else {}
    if spec["n"] % 3 == 0 and not spec.get("bulk"):
        iopts["churn"] = spec["n"]        # the database has a history (rewritten and deleted records); a reader sees the same content
    datadir.write_datadir(d, COINS[coin], placements, header_only=header_only, index_opts=iopts or None)
    binary = core.build(spec.get("profile", "release"))
    sig = signature(spec)
    v, runs = [], 0
    active = [b.hash_hex for _, b in chain]
    comp_hashes = {b.hash_hex for _, b in competitors}
    comp_txids = {t.txid_hex for _, b in competitors for t in b.txs}
    byh_comp = dict(competitors)
    tip = chain[-1][0]
    defective = [byh_comp[h].hash_hex if h in byh_comp else b.hash_hex for h, b in chain] + [b.hash_hex for h, b in competitors if h > tip]
    for cbname in spec["callbacks"]:
        dump = harness.fresh(os.path.join(work, "o"))
        log = os.path.join(work, "ev.jsonl")
        p = harness.run_cb(binary, d, coin, cbname, dump, log=log, timeout=300)
        runs += 1
        what = "[%s; competitor=%s pos=%s order=%s len=%s extras=%s coin=%s]" % (cbname, spec["cls"], spec["pos"], spec["order"], spec.get("length", 1), spec.get("extras"), coin)
        unexplained = sig if sig not in KNOWN_SHAPES else "unexplained-deviation:" + sig
        if p.rc != 0:
            v.append(viol(unexplained, "run failed (exit %s) %s: %s" % (p.rc, what, (p.err or p.out)[-300:].replace("\n", " | "))))
            continue
        ev = [e for e in harness.read_events(log) if e["ev"] == "deliver"]
        got = [e["hash"] for e in ev]
        if got != active and got == defective and sig in KNOWN_SHAPES:
            # exactly the deviation the recorded finding describes (competitor substituted / appended, nothing else):
            # attribute it to that signature; any other deviation in this case is reported under its own signature
            v.append(viol(sig, "delivered sequence has the competitor block(s) %s at height(s) %s %s" % (
                [b.hash_hex[:16] for _, b in competitors], [h for h, _ in competitors], what)))
            continue
        if got != active:
            wrong = [(e["height"], e["hash"][:16], "competitor" if e["hash"] in comp_hashes else "?") for e in ev if e["hash"] not in set(active)][:3]
            v.append(viol(unexplained, "delivered sequence is not the active chain %s: %d blocks delivered, %d active; foreign blocks %s" % (what, len(got), len(active), wrong)))
        prev = None
        for e in ev:
            if prev is not None and e["prev"] != prev:
                v.append(viol(unexplained, "broken link %s: block delivered at height %d has prev %s.., previous delivered block is %s.." % (what, e["height"], e["prev"][:16], prev[:16])))
                break
            prev = e["hash"]
        if cbname == "csvdump":
            bad = oracles.check_csvdump(p, dump, chain, coin)
        elif cbname == "unspentcsvdump":
            bad = oracles.check_unspent(p, dump, chain, coin)
        elif cbname == "balances":
            bad = oracles.check_balances(p, dump, chain, coin)
        elif cbname == "simplestats":
            bad = oracles.check_stats(p, chain, coin)
        else:
            bad = oracles.check_opreturn(p, chain, coin)
        for s_, det in bad:
            v.append(viol(unexplained, "%s: %s %s" % (s_, det, what)))
        if cbname == "csvdump" and p.rc == 0:
            txt = "".join(harness.read_dump(dump).values())
            leak = [t for t in comp_txids if t in txt][:2]
            if leak:
                v.append(viol(unexplained, "competitor transactions reach the output %s: %s" % (what, leak)))
    ranged = 0
    if sig not in KNOWN_SHAPES and spec.get("ranges") and not v:
        # the same index read for a RANGE: which record wins a height must not depend on --start/--end
        rrng = random.Random("C04ranges|%s|%s" % (spec["seed"], spec["n"]))
        pairs = [(None, e) for e in range(1, tip + 1)] + [(rrng.randint(1, e - 1), e) for e in range(2, tip + 2)] + [(s_, None) for s_ in (1, tip)]
        if spec["ranges"] != "all":
            pairs = rrng.sample(pairs, min(len(pairs), spec["ranges"]))
        for s_, e_ in pairs:
            dump = harness.fresh(os.path.join(work, "o"))
            log = os.path.join(work, "ev.jsonl")
            p = harness.run_cb(binary, d, coin, "csvdump", dump, s_, e_, verify=bool(s_) and (e_ or 0) % 2 == 0, log=log, timeout=300)
            runs += 1
            ranged += 1
            what = "[csvdump --start %s --end %s; competitor=%s extras=%s coin=%s]" % (s_, e_, spec["cls"], spec.get("extras"), coin)
            if p.rc != 0:
                v.append(viol(sig + ":ranged", "run failed (exit %s) %s: %s" % (p.rc, what, (p.err or p.out)[-300:].replace("\n", " | "))))
                break
            got = [e["hash"] for e in harness.read_events(log) if e["ev"] == "deliver"]
            want = [b.hash_hex for _, b in model.in_range(chain, s_ or 0, e_)]
            if got != want:
                v.append(viol(sig + ":ranged", "delivered sequence is not the active chain's slice %s: got %s want %s" % (what, [g[:12] for g in got], [w[:12] for w in want])))
                break
            bad = oracles.check_csvdump(p, dump, chain, coin, s_ or 0, e_)
            if bad:
                v.append(viol(sig + ":ranged", "%s: %s %s" % (bad[0][0], bad[0][1], what)))
                break
    shutil.rmtree(work, ignore_errors=True)
    # one violation per case is enough for the report
    v = v[:2]
    return {"evaluations": runs, "violations": v, "shapes": ["%s|len%d|%s|%s" % (sig, spec.get("length", 1), "+".join(sorted(set(spec.get("extras", [])))), "tip" if spec.get("at_tip") else "-")],
            "counters": {"runs": runs, "ranged_runs": ranged, "cases:" + ("benign" if spec["cls"] == "none" else spec["cls"]): 1, "competitor_records": len(competitors), "header_only_records": len(header_only)},
            "sample": {"coin": coin, "competitor": spec["cls"], "pos": spec["pos"], "order": spec["order"], "length": spec.get("length", 1), "extras": spec.get("extras")}}


def grow_case(spec):
    """The data directory of a RUNNING node: between two runs of the tool the node connects more blocks (new records, written in a later
    database session: they sit in LevelDB's log, the tables are unchanged) and learns of more headers. Every run must deliver the active
    chain of the index as it is at that moment."""
    import struct
    coin = spec["coin"]
    rng = random.Random("C04grow|%s|%s" % (spec["seed"], spec["n"]))
    cb = gen.ChainBuilder(rng, coin)
    T = spec.get("blocks", 12)
    for _ in range(T):
        cb.add_block(n_tx=rng.randint(0, 2), version=rng.choice([1, 2, 4]))
    chain = cb.chain()
    work = harness.fresh(os.path.join(spec["work"], "c%d" % spec["n"]))
    d = os.path.join(work, "d")
    stages = spec["stages"]            # tip heights after each node session
    first = stages[0]
    placements = [Placement(b, h, file=0, status=ACTIVE) for h, b in chain if h <= first]
    ho = [HeaderOnly(b, h, VALID_TREE, 0) for h, b in chain if first < h <= min(T - 1, first + 2)]     # headers of the next blocks are known already
    datadir.write_datadir(d, COINS[coin], placements, header_only=ho, index_opts={"write_buffer": 4096, "sessions": 2})
    binary = core.build("release")
    v, runs = [], 0
    magic = struct.pack("<I", COINS[coin].magic)
    have = first
    for si, tip in enumerate(stages):
        if tip > have:
            # node session: blocks have+1..tip are stored in a new blk file and their records (re)written with data
            fno = si
            pairs = []
            with open(os.path.join(d, datadir.default_name(fno)), "wb") as f:
                for h, b in chain:
                    if have < h <= tip:
                        raw = b.ser()
                        f.write(magic + struct.pack("<I", len(raw)))
                        off = f.tell()
                        f.write(raw)
                        pairs.append((b"b" + b.hash, datadir.index_value(h, ACTIVE, len(b.txs), b.header(), fno, off, 8)))
            for h, b in chain:
                if tip < h <= min(T - 1, tip + 2):
                    pairs.append((b"b" + b.hash, datadir.index_value(h, VALID_TREE, 0, b.header())))
            datadir.write_index(os.path.join(d, "index"), pairs, append=True)
            have = tip
        active = [(h, b) for h, b in chain if h <= have]
        for cbname in spec["callbacks"]:
            dump = harness.fresh(os.path.join(work, "o"))
            log = os.path.join(work, "ev.jsonl")
            p = harness.run_cb(binary, d, coin, cbname, dump, log=log, timeout=300)
            runs += 1
            what = "[%s, run after node session %d: tip %d, %d blocks known at the first run; coin=%s]" % (cbname, si, have, first + 1, coin)
            if p.rc != 0:
                v.append(viol("growing-directory", "run failed (exit %s) %s: %s" % (p.rc, what, (p.err or p.out)[-300:].replace("\n", " | "))))
                continue
            got = [e["hash"] for e in harness.read_events(log) if e["ev"] == "deliver"]
            want = [b.hash_hex for _, b in active]
            if got != want:
                v.append(viol("growing-directory", "delivered sequence is not the active chain %s: %d blocks delivered, %d active" % (what, len(got), len(want))))
                continue
            bad = oracles.check_csvdump(p, dump, active, coin) if cbname == "csvdump" else oracles.check_unspent(p, dump, active, coin)
            v.extend(viol("growing-directory", "%s: %s %s" % (s_, det, what)) for s_, det in bad[:1])
    shutil.rmtree(work, ignore_errors=True)
    return {"evaluations": runs, "violations": v[:2], "shapes": ["growing-directory|%d-stages|%s" % (len(stages), coin)],
            "counters": {"runs": runs, "cases:growing_directory": 1, "node_sessions_between_runs": len(stages) - 1},
            "sample": {"kind": "growing-directory", "coin": coin, "stages": stages}}


def plan(chk):
    rng = chk.rng("plan")
    specs = []
    n = 0
    extras_pool = ["header_only_occupied", "header_only_beyond", "header_only_below", "failed_no_data"]

    harmless_only = ["undo_only_occupied", "undo_only_beyond", "data_beyond_gap"]

    def add(**kw):
        nonlocal n
        n += 1
        kw.setdefault("coin", COIN_NAMES[n % 8])
        kw.setdefault("callbacks", CALLBACKS if chk.thorough else [CALLBACKS[0], CALLBACKS[1 + n % 4]])
        kw.setdefault("extras", [rng.choice(extras_pool) for _ in range(rng.randint(0, 3))])
        if kw["cls"] == "mixed_harmless":
            kw["extras"] = kw["extras"] + rng.sample(harmless_only, rng.randint(1, 2))
        specs.append(dict(case="case", seed=chk.seed, n=n, **kw))

    reps = 30 if chk.thorough else 2
    for rep in range(reps):
        # benign indexes: every extra kind alone and mixed
        for ex in extras_pool:
            add(cls="none", pos="-", order="-", extras=[ex] * rng.randint(1, 3))
        for ex in harmless_only:
            add(cls="none", pos="-", order="-", extras=[ex])
        add(cls="none", pos="-", order="-", extras=extras_pool * 2 + harmless_only)
        add(cls="none", pos="-", order="-", extras=[])
        for _ in range(4):
            add(cls="mixed_harmless", pos="-", order="-", ranges="all" if chk.thorough else 12)
        if rep < (4 if chk.thorough else 1):
            for bulk in ([9000, 70000] if not chk.thorough else [8200, 20000, 70000, 140000]):
                add(cls="mixed_harmless", pos="-", order="-", ranges=3, blocks=40, bulk=bulk, extras=["bulk_headers"], callbacks=[CALLBACKS[0], CALLBACKS[1 + n % 4]])
                add(cls="none", pos="-", order="-", blocks=12, bulk=bulk, extras=["bulk_headers", "header_only_occupied"], callbacks=[CALLBACKS[0]])
        for cls in ("stale_with_data", "failed_with_data", "failed_child_with_data", "reorged_out"):
            for order in ("before", "after"):
                for length in (1, 2, 3):
                    add(cls=cls, pos="occupied_height", order=order, length=length)
                add(cls=cls, pos="occupied_height", order=order, length=1, at_tip=True)
            for length in (1, 2):
                add(cls=cls, pos="beyond_tip", order="n/a", length=length)
    for i in range(12 if chk.thorough else 3):
        n += 1
        specs.append(dict(case="grow", seed=chk.seed, n=n, coin=COIN_NAMES[(chk.seed + i) % 8], blocks=12, stages=[[6, 9, 11], [3, 4, 11], [8, 8, 10]][i % 3],
                          callbacks=["csvdump"] if i % 2 else ["csvdump", "unspentcsvdump"]))
    return specs


def _dispatch(spec):
    return grow_case(spec) if spec.get("case") == "grow" else case(spec)


def main():
    chk = core.Check("C04")
    core.build("release")
    core.ldbtool()
    specs = plan(chk)
    for sp in specs:
        sp["work"] = chk.workdir
    for res in core.parallel(_dispatch, specs):
        chk.absorb(res)
    chk.finish(RULE, floor={"cases:benign": 10, "cases:stale_with_data": 10, "cases:reorged_out": 10, "cases:failed_with_data": 10, "header_only_records": 50, "cases:growing_directory": 3},
               assumptions=["status values follow Bitcoin Core's BlockStatus (validity level in the low 3 bits, HAVE_DATA=8, HAVE_UNDO=16, FAILED_VALID=32, FAILED_CHILD=64)",
                            "header-only records use realistic header versions",
                            "one data-bearing competitor class per index, so that a violation is attributed to exactly one known-finding signature"])


def replay(spec):
    core.replay_case("C04", {"case": case, "grow": grow_case}, spec)
