"""C12 — AuxPoW headers are skipped exactly, leaving block hash and txs unaffected."""
import os
import random
import shutil
import struct

from .. import core, harness, datadir, model, oracles, gen
from ..chain import COINS, COIN_NAMES, Tx, TxIn, TxOut, Block, ZERO32
from ..core import viol
from ..gen import rbytes
from ..ser import compact_size, sha256d

RULE = ("namecoin/dogecoin chains whose blocks carry an AuxPoW section iff version >= activation version (0x10101 / 0x620102): sections with "
        "parent coinbase in legacy or segwit form and arbitrary shapes (0..many inputs/outputs/witness items, big scripts), both merkle "
        "branches of length 0..40 (and 252/253/300 -> 3-byte CompactSize), random masks and parent headers; block versions threshold-1, "
        "threshold, threshold+1, 0xffffffff, 1, mixed within one chain. Real csvdump (+unspent/simplestats sample) with --verify: output "
        "must equal the model, which ignores the section (blocksize = stored length). Negative control: the six other coins with the same "
        "high-version blocks stored without a section; a third of the directories are XOR-obfuscated (sections read through the XOR reader at unaligned offsets). Control cases without -c (Bitcoin is the default coin) on directories named like other coins' default folders, and AuxPoW coins with -c on foreign-named directories. distinct = (coin, version class, coinbase form, branch length class) signatures")

AUX_COINS = ["namecoin", "dogecoin"]
CHAIN_IDS = list(range(0, 33)) + [0x32, 0x5a, 0x62, 0x63, 0x7f, 0x80, 0xff, 0x100, 0x1000, 0x2000, 0x7fff, 0xffff]


def aux_section(rng, shape):
    """Raw AuxPoW section bytes"""
    segwit = shape["segwit"]
    nin = shape.get("nin", 1)
    ins = []
    for i in range(nin):
        wit = [rbytes(rng, rng.choice([0, 1, 32, 300])) for _ in range(rng.choice([0, 1, 2, 5]))] if segwit else None
        ins.append(TxIn(ZERO32 if i == 0 else rbytes(rng, 32), 0xFFFFFFFF if i == 0 else rng.getrandbits(32), rbytes(rng, shape.get("siglen", rng.randint(2, 100))),
                        rng.getrandbits(32), wit))
    outs = [TxOut(rng.getrandbits(rng.choice([8, 40, 64])), rbytes(rng, rng.choice([0, 25, 35, shape.get("spklen", 25)]))) for _ in range(shape.get("nout", 2))]
    cbtx = Tx(rng.choice([1, 2, 0xFFFFFFFF]), ins, outs, rng.choice([0, rng.getrandbits(32)]), segwit=segwit)
    def h32():
        # none of the section's fields is validated by anyone: all-zero (what current Namecoin Core writes as parent hash), all-ones and
        # repeated hashes are as legal as random ones
        r = rng.random()
        return rbytes(rng, 32) if r < 0.7 else (bytes(32) if r < 0.85 else (b"\xff" * 32 if r < 0.93 else bytes([rng.randrange(256)]) * 32))
    def branch(n):
        return compact_size(n) + b"".join(h32() for _ in range(n)) + struct.pack("<I", rng.choice([0, 1, rng.getrandbits(32), 0xFFFFFFFF]))
    if rng.random() < 0.15:
        parent_header = bytes(80) if rng.random() < 0.5 else b"\xff" * 80
        parent_hash = h32()
    else:
        parent = Block(rng.getrandbits(32), h32(), rng.getrandbits(32), rng.getrandbits(32), rng.getrandbits(32), [], merkle=h32())
        parent_header = parent.header()
        r = rng.random()
        parent_hash = parent.hash if r < 0.3 else (bytes(32) if r < 0.6 else h32())
    kind = "zero" if parent_hash == bytes(32) else ("real" if parent_hash == sha256d(parent_header) else "other")
    shape["parent_hash_kind"] = kind
    return cbtx.ser() + parent_hash + branch(shape["cb_branch"]) + branch(shape["chain_branch"]) + parent_header


def build(spec):
    rng = random.Random("C12|%s|%s" % (spec["seed"], spec["n"]))
    coin = spec["coin"]
    thr = COINS[coin].auxpow
    cb = gen.ChainBuilder(rng, coin)
    shapes = set()
    thr_ref = thr if thr is not None else spec["foreign_threshold"]
    for i in range(spec.get("blocks", 8)):
        vclass = spec["versions"][i % len(spec["versions"])]
        ver = {"below": thr_ref - 1, "at": thr_ref, "above": thr_ref + 1, "max": 0xFFFFFFFF, "one": 1, "random-high": rng.randint(thr_ref, 0xFFFFFFFF),
               "random-low": rng.randint(0, thr_ref - 1), "bit-above": thr_ref | 0x100, "chainid": thr_ref + (rng.randint(1, 100) << 16),
               # merged-mining style versions: chain id << 16 | AuxPoW flag 0x100 | base version, for every small chain id and the ids real coins use
               "auxflag": (CHAIN_IDS[(spec["n"] * 7 + i) % len(CHAIN_IDS)] << 16) | 0x100 | rng.choice([1, 2, 4, 0xff])}[vclass]
        ver &= 0xFFFFFFFF
        aux = None
        if thr is not None and ver >= thr:
            shape = dict(segwit=rng.random() < 0.4, nin=rng.choice([1, 1, 2, 5]), nout=rng.choice([0, 1, 2, 7]), cb_branch=rng.choice(spec["branch_lengths"]),
                         chain_branch=rng.choice(spec["branch_lengths"]), siglen=rng.choice([0, 2, 100, 253, 1000]), spklen=rng.choice([0, 25, 300]))
            aux = aux_section(rng, shape)
            shapes.add("%s|%s|%s|cb%s|ch%s" % (coin, vclass, "segwit" if shape["segwit"] else "legacy", blen(shape["cb_branch"]), blen(shape["chain_branch"])))
            shapes.add("%s|parent-hash-field:%s" % (coin, shape["parent_hash_kind"]))
        else:
            shapes.add("%s|%s|nosection" % (coin, vclass))
        txs = [cb.spend_tx(rng.randint(1, 2), outs=[cb.out(rng.choice(["p2pkh", "p2sh", "opreturn", "nonstd"])) for _ in range(rng.randint(1, 3))]) for _ in range(rng.randint(0, 3))]
        cb.add_block(txs=txs, version=ver, auxpow=aux)
    return cb.chain(), shapes


def blen(n):
    return "0" if n == 0 else ("<=40" if n <= 40 else ("<253" if n < 253 else ">=253"))


def case(spec):
    coin = spec["coin"]
    chain, shapes = build(spec)
    work = harness.fresh(os.path.join(spec["work"], "c%d" % spec["n"]))
    # the directory NAME is not an input of the decoder: a Bitcoin directory may be called like another coin's default folder
    d = os.path.join(work, spec.get("dirname", "d"))
    omit = bool(spec.get("omit_coin"))
    xrng = random.Random("C12xor|%s" % spec["n"])
    xor_key = bytes(xrng.randrange(0, 256) for _ in range(xrng.choice([8, 8, 5, 16]))) if spec["n"] % 3 == 0 else None
    datadir.write_datadir(d, COINS[coin], harness.simple_layout(chain), xor_key=xor_key)
    binary = core.build(spec.get("profile", "release"))
    v, runs = [], 0
    n_aux = sum(1 for _, b in chain if b.auxpow)
    for cbname in spec.get("callbacks", ["csvdump"]):
        dump = harness.fresh(os.path.join(work, "o"))
        p = harness.run_cb(binary, d + spec.get("dir_suffix", ""), coin, cbname, dump, 1, None, verify=True, timeout=300, omit_coin=omit)
        runs += 1
        if p.rc != 0:
            v.append(viol("verify-or-parse-failure", "%s --verify -s 1 failed on %s chain with %d AuxPoW blocks (versions %s): %s" % (
                cbname, coin, n_aux, spec["versions"], (p.err or p.out)[-300:].replace("\n", " | "))))
            continue
        if cbname == "csvdump":
            bad = oracles.check_csvdump(p, dump, chain, coin, 1, None)
        elif cbname == "unspentcsvdump":
            bad = oracles.check_unspent(p, dump, chain, coin, 1, None)
        else:
            bad = oracles.check_stats(p, chain, coin, 1, None)
        v.extend(viol(sig, "%s [coin=%s versions=%s auxpow blocks=%d]" % (det, coin, spec["versions"], n_aux)) for sig, det in bad)
    # whole chain without --verify as well (block 0 included)
    dump = harness.fresh(os.path.join(work, "o"))
    p = harness.run_cb(binary, d + spec.get("dir_suffix", ""), coin, "csvdump", dump, timeout=300, omit_coin=omit)
    runs += 1
    v.extend(viol(sig, "%s [coin=%s versions=%s]" % (det, coin, spec["versions"])) for sig, det in oracles.check_csvdump(p, dump, chain, coin))
    shutil.rmtree(work, ignore_errors=True)
    return {"evaluations": runs, "violations": v, "shapes": sorted(shapes),
            "counters": {"runs": runs, "auxpow_blocks": n_aux, "xor_obfuscated_chains": 1 if xor_key else 0, "blocks_without_section": len(chain) - n_aux,
                         "aux_coin_runs" if COINS[coin].auxpow else "control_coin_runs": runs},
            "sample": {"coin": coin, "versions": spec["versions"], "auxpow_blocks": n_aux, "blocks": len(chain)}}


def plan(chk):
    rng = chk.rng("plan")
    specs = []
    n = 0
    vsets = [["below", "at", "above"], ["at"], ["above", "one", "max"], ["below", "max", "one", "at"], ["random-high", "random-low"], ["bit-above", "chainid"],
             ["below"], ["max"]]
    lens_small = [0, 1, 2, 5, 12, 32, 40]
    lens_big = lens_small + [252, 253, 300]
    for coin in AUX_COINS:
        for i in range(1000 if chk.thorough else 40):
            n += 1
            specs.append(dict(case="case", coin=coin, seed=chk.seed, n=n, versions=vsets[i % len(vsets)] if i < 16 else [rng.choice(list("x")) and rng.choice(
                ["below", "at", "above", "max", "one", "random-high", "random-low", "bit-above", "chainid", "auxflag"]) for _ in range(rng.randint(1, 5))],
                              branch_lengths=lens_big if (chk.thorough or i % 8 == 0) else lens_small, blocks=rng.choice([4, 8, 12]),
                              callbacks=["csvdump", "unspentcsvdump"] if i % 4 == 0 else (["csvdump", "simplestats"] if i % 4 == 1 else ["csvdump"]),
                              profile="debug" if i % 6 == 5 else "release"))
    for coin in COIN_NAMES:
        # every chain id with the AuxPoW flag bit: a section only where the coin's activation version is reached (never on the six others)
        n += 1
        specs.append(dict(case="case", coin=coin, seed=chk.seed, n=n, versions=["auxflag"], branch_lengths=lens_small, foreign_threshold=0x10101, blocks=len(CHAIN_IDS),
                          callbacks=["csvdump"]))
    for coin in [c for c in COIN_NAMES if c not in AUX_COINS]:
        for i in range(20 if chk.thorough else 5):
            n += 1
            specs.append(dict(case="case", coin=coin, seed=chk.seed, n=n, versions=vsets[i % len(vsets)], branch_lengths=lens_small,
                              foreign_threshold=[0x10101, 0x620102][i % 2], blocks=6))
    # how the tool is pointed at the data: no -c at all (Bitcoin is the default coin) on directories named like other coins' default
    # folders, with a trailing slash; and -c given for a directory with a foreign name
    names = [".dogecoin/blocks", ".namecoin", ".namecoin/blocks", ".litecoin/blocks", ".bitcoin/blocks", "Dogecoin", ".unobtanium/blocks", ".myriadcoin/blocks"]
    for i, dn in enumerate(names if chk.thorough else names[:4] + [names[4 + chk.seed % 4]]):
        n += 1
        specs.append(dict(case="case", coin="bitcoin", seed=chk.seed, n=n, versions=vsets[i % 4] + ["auxflag"], branch_lengths=lens_small,
                          foreign_threshold=[0x620102, 0x10101][i % 2], blocks=8, dirname=dn, dir_suffix="/" if i % 2 else "", omit_coin=True))
        n += 1
        specs.append(dict(case="case", coin=AUX_COINS[i % 2], seed=chk.seed, n=n, versions=["below", "at", "above"], branch_lengths=lens_small, blocks=6,
                          dirname=[".bitcoin/blocks", ".litecoin/blocks"][i % 2]))
    return specs


def main():
    chk = core.Check("C12")
    core.build("release")
    core.build("debug")
    core.ldbtool()
    specs = plan(chk)
    for sp in specs:
        sp["work"] = chk.workdir
    for res in core.parallel(case, specs):
        chk.absorb(res)
    chk.finish(RULE, floor={"auxpow_blocks": 150, "blocks_without_section": 100, "aux_coin_runs": 100, "control_coin_runs": 30},
               assumptions=["the section layout is the merged-mining specification: coinbase tx, parent block hash, coinbase branch, chain branch, parent header",
                            "namecoin/dogecoin genesis blocks are not used here: --verify runs start at height 1"])


def replay(spec):
    core.replay_case("C12", {"case": case}, spec)
