"""C07 — unspentcsvdump lists exactly the unspent, address-bearing outputs of the range."""
import os
import random
import shutil

from .. import core, harness, datadir, model, oracles, histories
from ..chain import COINS
from ..core import viol

RULE = ("spend histories over the event alphabet {create addr / address-less / zero-value / 260-output tx, spend latest, fan-in of a whole "
        "tx, spend unknown outpoint, duplicate txid, double reference of one outpoint, spender placed before the creator inside a block, "
        "fan-in whose first input is the null outpoint}: "
        "ALL sequences of <=4 (quick) / <=5 (thorough) events (the many-output tx has 260 outputs for <=3 events, 3 beyond), each in every split over <=3 blocks (independent lanes packed into one chain "
        "per split), x ranges (full, --start inside, --end inside) x 3 coins; plus random long histories of 50..5000 events with shared "
        "state; plus a transaction with 65,540 outputs (indices beyond 16 bits). Real unspentcsvdump runs; the row multiset (header first, no duplicates) and the completion totals must equal the model "
        "UTXO set. One long run (more than 2^16 blocks in one process, three blk files) is compared with the model as well: thresholds of anything a run accumulates. distinct = event sequences x splits x range kinds (counted), random histories by (coin, size class)")

COINS3 = ["bitcoin", "litecoin", "dogecoin"]


def attribute(rows_bad, owner):
    seqs = sorted({owner.get(r.split(";")[0], "?") for r in rows_bad})[:5]
    return seqs


def run_ranges(binary, d, coin, chain, work, ranges, desc, owner=None, callback="unspentcsvdump", check=None):
    v, runs = [], 0
    check = check or oracles.check_unspent
    for s, e, rk in ranges:
        dump = harness.fresh(os.path.join(work, "o"))
        p = harness.run_cb(binary, d, coin, callback, dump, s, e, timeout=900)
        runs += 1
        bad = check(p, dump, chain, coin, s or 0, e)
        for sig, det in bad:
            extra = ""
            if owner and sig.endswith(":rows"):
                got = harness.read_dump(dump)
                utxo, _ = model.utxo_expected(chain, coin, s or 0, e)
                exp_rows = set(model.unspent_rows(utxo))
                rows = set()
                for t in got.values():
                    rows |= set(t.split("\n")[1:])
                rows.discard("")
                diff = list((rows ^ exp_rows))[:50]
                extra = " failing event sequences: %s" % attribute(diff, owner)
            v.append(viol(sig, "%s%s [%s range=%s..%s (%s) coin=%s]" % (det, extra, desc, s, e, rk, coin)))
    return v, runs


def lanes_case(spec):
    coin = spec["coin"]
    rng = random.Random("C07lanes|%s|%s" % (spec["seed"], spec["n"]))
    seqs = histories.all_sequences(spec["k"]) if spec.get("sample") is None else spec["sample"]
    chain, owner = histories.lanes_chain(rng, coin, seqs, spec["split"], lane_base=spec["n"] * 10**6, many=spec.get("many", 260))
    work = harness.fresh(os.path.join(spec["work"], "c%d" % spec["n"]))
    d = os.path.join(work, "d")
    datadir.write_datadir(d, COINS[coin], harness.simple_layout(chain))
    binary = core.build(spec.get("profile", "release"))
    nb = len(spec["split"])
    ranges = [(None, None, "full")]
    if spec.get("ranges", True):
        ranges.append((1, None, "start=first-event-block"))
        if nb >= 2:
            ranges.append((2, None, "start-inside"))
            ranges.append((None, nb - 1 + 0, "end-inside"))
        ranges.append((None, nb, "end=last-event-block"))
    v, runs = run_ranges(binary, d, coin, chain, work, ranges, "lanes k=%d split=%s" % (spec["k"], spec["split"]), owner)
    shutil.rmtree(work, ignore_errors=True)
    utxo, _ = model.utxo_expected(chain, coin)
    return {"evaluations": runs, "violations": v,
            "counters": {"runs": runs, "histories": len(seqs) * len(ranges), "rows_expected_full": len(utxo)},
            "shapes": ["lanes|k%d|split=%s|%s|%s" % (spec["k"], "-".join(map(str, spec["split"])), rk, coin) for _, _, rk in ranges],
            "sample": {"kind": "lanes", "k": spec["k"], "split": spec["split"], "coin": coin, "sequences": len(seqs), "example": seqs[len(seqs) // 3]}}


def random_case(spec):
    coin = spec["coin"]
    rng = random.Random("C07rand|%s|%s" % (spec["seed"], spec["n"]))
    chain = histories.random_history_chain(rng, coin, spec["events"], spec["blocks"])
    work = harness.fresh(os.path.join(spec["work"], "c%d" % spec["n"]))
    d = os.path.join(work, "d")
    datadir.write_datadir(d, COINS[coin], harness.simple_layout(chain))
    binary = core.build(spec.get("profile", "release"))
    tip = chain[-1][0]
    ranges = [(None, None, "full")]
    if tip > 3:
        ranges += [(rng.randint(1, tip - 1), None, "start-inside"), (None, rng.randint(1, tip - 1), "end-inside")]
    v, runs = run_ranges(binary, d, coin, chain, work, ranges, "random history %d events / %d blocks" % (spec["events"], spec["blocks"]))
    shutil.rmtree(work, ignore_errors=True)
    utxo, _ = model.utxo_expected(chain, coin)
    sc = "<100" if spec["events"] < 100 else ("<1000" if spec["events"] < 1000 else ">=1000")
    return {"evaluations": runs, "violations": v, "counters": {"runs": runs, "random_histories": 1, "rows_expected_full": len(utxo)},
            "shapes": ["random|%s|%s|n%d" % (coin, sc, spec["n"] % 7)],
            "sample": {"kind": "random", "coin": coin, "events": spec["events"], "blocks": spec["blocks"], "utxo_rows": len(utxo)}}


def wide_case(spec):
    """output indices beyond 65535: one transaction with 65,540 address-bearing outputs, some of them spent later"""
    from ..chain import Tx, TxIn, TxOut
    from .. import gen
    coin = spec["coin"]
    rng = random.Random("C07wide|%s|%s" % (spec["seed"], spec["n"]))
    cb = gen.ChainBuilder(rng, coin)
    cb.add_block(n_tx=1)
    wide = Tx(1, [TxIn(gen.rbytes(rng, 32), 0, b"", 0xFFFFFFFF)], [TxOut(1 + i, histories.p2pkh_for(b"wide%d" % i)) for i in range(65540)], 0)
    cb.add_block(txs=[wide])
    spends = [0, 3, 255, 256, 65535, 65536, 65539]
    cb.add_block(txs=[Tx(1, [TxIn(wide.txid, i, b"", 0xFFFFFFFF)], [TxOut(7, histories.p2pkh_for(b"spent%d" % i))], 0) for i in spends[:4]])
    cb.add_block(txs=[Tx(1, [TxIn(wide.txid, i, b"", 0xFFFFFFFF) for i in spends[4:]], [TxOut(9, histories.p2pkh_for(b"fanin"))], 0)])
    chain = cb.chain()
    work = harness.fresh(os.path.join(spec["work"], "c%d" % spec["n"]))
    d = os.path.join(work, "d")
    datadir.write_datadir(d, COINS[coin], harness.simple_layout(chain))
    binary = core.build(spec.get("profile", "release"))
    v, runs = run_ranges(binary, d, coin, chain, work, [(None, None, "full"), (None, 2, "end-inside")], "65,540-output transaction")
    shutil.rmtree(work, ignore_errors=True)
    return {"evaluations": runs, "violations": v, "counters": {"runs": runs, "wide_tx_cases": 1}, "shapes": ["wide|%s" % coin],
            "sample": {"kind": "wide", "coin": coin, "outputs": 65540, "spent_indices": spends}}


def dispatch(spec):
    return {"lanes": lanes_case, "random": random_case, "wide": wide_case}[spec["case"]](spec)


def plan(chk, pid="C07"):
    rng = chk.rng("plan")
    specs = []
    n = 0
    maxk = 5 if chk.thorough else 4
    for k in range(1, maxk + 1):
        for split in histories.compositions(k, 3):
            n += 1
            specs.append(dict(case="lanes", coin=COINS3[n % 3], seed=chk.seed, n=n, k=k, split=split, many=260 if (k <= 3 or (chk.thorough and k == 4)) else 3,
                              profile="debug" if (k <= 3 and n % 4 == 0) else "release"))
    if chk.thorough:
        for i in range(12):
            n += 1
            sample = ["".join(rng.choice(histories.EVENTS) for _ in range(6)) for _ in range(3000)]
            split = rng.choice(histories.compositions(6, 3))
            specs.append(dict(case="lanes", coin=COINS3[n % 3], seed=chk.seed, n=n, k=6, split=split, sample=sample))
    for i in range(3 if chk.thorough else 1):
        n += 1
        specs.append(dict(case="wide", coin=COINS3[i % 3], seed=chk.seed, n=n))
    for i in range(3000 if chk.thorough else 120):
        n += 1
        ev = rng.choice([50, 80, 150, 400, 1000]) if i % 20 else 5000
        specs.append(dict(case="random", coin=COINS3[n % 3] if i % 5 else rng.choice(list(COINS)), seed=chk.seed, n=n, events=ev,
                          blocks=rng.choice([3, 8, 20, 50])))
    return specs


def _dispatch(spec):
    from .. import longrun
    return longrun.long_case(spec) if spec.get("case") == "long" else dispatch(spec)


def main():
    chk = core.Check("C07")
    core.build("release")
    core.build("debug")
    core.ldbtool()
    specs = plan(chk)
    for sp in specs:
        sp["work"] = chk.workdir
    specs.sort(key=lambda s: -(10 ** s.get("k", 0) if s["case"] == "lanes" else s.get("events", 10**6)))
    from ..chain import COIN_NAMES
    specs.insert(0, dict(case="long", callback="unspentcsvdump", coin=COIN_NAMES[(chk.seed + 1) % 8], seed=chk.seed, n=0, blocks=(140000 if chk.thorough else 70000), verify=False, work=chk.workdir))
    for res in core.parallel(_dispatch, specs, jobs=min(core.NPROC, 12)):
        chk.absorb(res)
    maxk = 5 if chk.thorough else 4
    chk.finish(RULE, floor={"histories": 10000, "random_histories": 100, "runs": 200},
               assumptions=["UTXO semantics as stated: per transaction remove inputs then insert address-bearing outputs, in chain order; later duplicate key replaces",
                            "only scripts with a pinned address verdict are used (C05/C06 own the address rules)"],
               exhaustive=False,
               extra={"exhaustive_up_to_events": maxk, "alphabet": histories.EVENTS})


def replay(spec):
    from .. import longrun
    core.replay_case("C07", {"lanes": lanes_case, "random": random_case, "wide": wide_case, "long": longrun.long_case}, spec)
