"""C14 — no script or witness content can abort a run or disturb other rows."""
import os
import random
import shutil

from .. import core, gen, harness, datadir, model, oracles, scriptgen as sg
from ..chain import COINS, COIN_NAMES, Tx, TxIn, TxOut
from ..core import viol
from ..gen import rbytes
from . import scriptcommon as sc

CALLBACKS = ["csvdump", "unspentcsvdump", "balances", "simplestats", "opreturn"]
RULE = ("hostile byte strings (truncated pushes of every width, PUSHDATA4 with lengths up to 2^32-1, every leading opcode, 1..10^4 "
        "pushes after OP_n, invalid UTF-8 after OP_RETURN, witness-program and P2PK look-alikes, 10-100 kB fields, random bytes/tokens) "
        "(a) through the real evaluator in-process with catch_unwind on debug AND release builds x 8 coins: no panic, no Error pattern; "
        "(b) placed in scriptPubKey / scriptSig / witness items of otherwise valid chains, all five callbacks run on debug and release: "
        "exit status 0, no panic text, and every output equals the reference model; for hostile scriptPubKeys the values derived "
        "from the hostile script itself (its type, address, payload line) are masked, they belong to C05/C06/C16. Well-formed standard scripts are part of the hostile content, followed by innocent outputs that reuse their pushed bytes in another role (echo outputs): those rows must be the model's. A run that hangs (no CPU time, all threads asleep for 10 s) is reported like an abnormal exit; chains place warning-triggering scripts after printed OP_RETURN rows. distinct = (field, family, coin rules, build, callback) signatures")

FIELDS = ["spk", "sig", "wit"]


def hostile_pool(rng, big):
    pool = []
    for g in (sg.fam_hostile(rng, big=big), sg.fam_random_tokens(rng, 300), sg.fam_random_bytes(rng, 100, 3000), sg.fam_leading(rng)):
        pool.extend(g)
    return pool


def opreturn_exp(chain, coin, hostile):
    """expected opreturn lines; lines of hostile OP_RETURN scripts are unpinned here (C16 owns them)"""
    from ..script_ref import ANY, opreturn_text
    out = []
    for h, b in chain:
        for t in b.txs:
            for o in t.outs:
                txt = opreturn_text(o.script, coin)
                if o.script in hostile and o.script[:1] == b"\x6a":
                    txt = ANY
                if txt is None:
                    continue
                out.append((model.OPRETURN_CANON % (h, t.txid_hex), txt))
    return out


def rejudge_spk(bad, cbname, p, dump, chain, coin, hostile):
    """drops violations that only concern values derived from the hostile scriptPubKeys themselves"""
    hhex = {s.hex() for s in hostile}
    hostile_outpoints = {(t.txid_hex, str(n)) for _, b in chain for t in b.txs for n, o in enumerate(t.outs) if o.script in hostile}
    keep = []
    for sig, det in bad:
        if cbname == "csvdump" and sig == "csv:tx_out":
            got = [t for n, t in harness.read_dump(dump).items() if n.startswith("tx_out-")]
            exp = model.csv_expected(chain, coin)["tx_out"]

            def mask(text):
                out = []
                for ln in text.split("\n"):
                    f = ln.split(";")
                    out.append(";".join(f[:4]) if len(f) == 5 and f[3] in hhex else ln)
                return out
            if got and mask(got[0]) == mask(exp):
                continue
        elif cbname == "unspentcsvdump" and sig in ("unspent:rows", "unspent:totals"):
            got = [t for n, t in harness.read_dump(dump).items() if n.startswith("unspent-")]
            utxo, _ = model.utxo_expected(chain, coin)
            exp_rows = sorted(r for r in model.unspent_rows(utxo) if tuple(r.split(";")[:2]) not in hostile_outpoints)
            if got:
                rows, _ = oracles.parse_rows(got[0], oracles.UNSPENT_HEADER)
                if sorted(r for r in rows if tuple(r.split(";")[:2]) not in hostile_outpoints) == exp_rows:
                    continue
        elif cbname == "balances" and sig == "balances:rows":
            got = [t for n, t in harness.read_dump(dump).items() if n.startswith("balances-")]
            bal = {}
            for _, b in chain:
                pass
            utxo, _ = model.utxo_expected(chain, coin)
            clean = {k: v for k, v in utxo.items() if (k[0], str(k[1])) not in hostile_outpoints}
            exp = model.balances_expected(clean)
            if got:
                rows, _ = oracles.parse_rows(got[0], oracles.BALANCES_HEADER)
                have = dict(r.split(";") for r in rows if r.count(";") == 1)
                if all(have.get(a) is not None and int(have[a]) >= val for a, val in exp.items()):
                    continue
        elif cbname == "simplestats" and sig == "stats:figure" and (det.startswith("type counts") or det.startswith("first occurrences")
                                                                    or det.startswith("type lines") or det.startswith("share of")):
            continue
        keep.append((sig, det))
    return keep


def echo_scripts(script, fork):
    """Innocent standard outputs that reuse a 20/32/33/65-byte push of `script` in ANOTHER role (the P2SH of the hash a P2PKH pays to,
    the P2PKH of a P2PK's key, ...). Their rows are not derived from `script`; anything the evaluator keeps from `script` and keys too
    coarsely (by the pushed bytes alone) shows in them."""
    from ..ser import hash160
    out, i, n = [], 0, len(script)
    while i < n and len(out) < 6:
        op = script[i]
        i += 1
        if 1 <= op <= 75:
            ln = op
        elif op == 0x4c and i < n:
            ln = script[i]
            i += 1
        else:
            continue
        data = script[i:i + ln]
        i += ln
        if len(data) != ln:
            break
        if ln == 20:
            out += [b"\x76\xa9\x14" + data + b"\x88\xac", b"\xa9\x14" + data + b"\x87"] + ([] if fork else [b"\x00\x14" + data])
        elif ln in (33, 65):
            out += [bytes([ln]) + data + b"\xac", b"\x76\xa9\x14" + hash160(data) + b"\x88\xac", b"\xa9\x14" + hash160(data) + b"\x87"]
        elif ln == 32 and not fork:
            out += [b"\x00\x20" + data, b"\x51\x20" + data]
    return [o for o in out if o != script]


def case(spec):
    coin, field, profile = spec["coin"], spec["field"], spec["profile"]
    rng = random.Random("C14|%s|%s|%s" % (spec["seed"], spec["n"], field))
    pool = hostile_pool(rng, spec.get("big", False))
    rng.shuffle(pool)
    pick = pool[:spec.get("count", 120)]
    # always include the historically fatal shapes
    pick += [("hostile:many-pushes", b"\x51" + b"\x01\x02" * 256 + b"\x60\xae"), ("hostile:many-pushes", b"\x51" + b"\x01\x02" * 257 + b"\x51\xae")]
    # field lengths on both sides of every CompactSize width change (the length prefix is re-serialised for the txid)
    for ln in (252, 253, 254, 255, 256, 0xfffe, 0xffff, 0x10000, 0x10001):
        body = rbytes(rng, ln - 1)
        pick.append(("hostile:len-boundary", bytes([rng.choice([0x6a, 0x00, 0x51, 0x76, 0xff])]) + body))
    # well-formed standard scripts are byte strings too: as "hostile" content they matter because of what an implementation may remember
    # about them (see echo_scripts)
    for k in ("p2pkh", "p2sh", "p2pk33", "p2pk65", "p2pkh", "p2sh") * 4:
        pick.insert(rng.randrange(len(pick) + 1), ("hostile:wellformed", sg.template(rng, k)))
    # order matters too: a script that makes the evaluator speak up from a worker thread (a v0 witness program of an illegal length) in a
    # LATER block than a printed OP_RETURN row, and the other way round
    pick.insert(0, ("hostile:opreturn-text", b"\x6a" + gen.push(b"an early row")))
    pick.insert(min(len(pick), 3), ("hostile:v0-illegal-length", b"\x00\x03\xaa\xbb\xcc"))
    pick.append(("hostile:opreturn-text", b"\x6a" + gen.push(b"a late row")))
    pick += [("hostile:v0-illegal-length", b"\x00\x02\xaa\xbb"), ("hostile:v0-illegal-length", b"\x00\x10" + rbytes(rng, 16)),
             ("hostile:opreturn-text", b"\x6a" + gen.push(b"the last row"))]
    fork = not COINS[coin].bitcoin_rules
    hostile_set = {s for _, s in pick}
    echoes = 0
    cb = gen.ChainBuilder(rng, coin)
    it = iter(pick)
    fams = set()
    done = False
    while not done:
        txs = []
        for _ in range(3):
            items = []
            for _ in range(rng.randint(1, 6)):
                x = next(it, None)
                if x is None:
                    done = True
                    break
                items.append(x)
            if not items:
                break
            fams.update(":".join(f.split(":")[:2]) for f, _ in items)
            if field == "spk":
                txs.append(cb.spend_tx(1, outs=[TxOut(rng.randint(0, 10**9), s) for _, s in items] + [cb.out("p2pkh")]))
                ech = [e for _, s in items if len(s) < 200 for e in echo_scripts(s, fork) if e not in hostile_set][:12]
                if ech:
                    echoes += len(ech)
                    txs.append(cb.spend_tx(1, outs=[TxOut(rng.randint(1, 10**9), e) for e in ech]))
            elif field == "sig":
                t = cb.spend_tx(len(items), outs=[cb.out("p2pkh"), cb.out("p2sh")], segwit=False)
                for i, (_, s) in zip(t.ins, items):
                    i.script_sig = s
                t.invalidate()
                txs.append(t)
            else:
                t = cb.spend_tx(len(items), outs=[cb.out("p2pkh"), cb.out("p2sh")], segwit=True)
                for i, (_, s) in zip(t.ins, items):
                    i.witness = [s] + [rbytes(rng, rng.choice([0, 1, 33])) for _ in range(rng.randint(0, 2))]
                txs.append(t)
        if field == "sig" and txs and rng.random() < 0.5:
            # hostile coinbase scriptSig as well (constructed before add_block creates its own coinbase)
            pass
        cb.add_block(txs=txs)
    chain = cb.chain()
    hostile_scripts = {s for _, s in pick} if field == "spk" else set()
    work = harness.fresh(os.path.join(spec["work"], "c%d" % spec["n"]))
    d = os.path.join(work, "d")
    datadir.write_datadir(d, COINS[coin], harness.simple_layout(chain))
    binary = core.build(profile)
    v, counters, shapes = [], {"runs": 0, "hostile_fields": len(pick), "echo_outputs": echoes}, set()
    for cbname in CALLBACKS:
        dump = harness.fresh(os.path.join(work, "o"))
        p = harness.run_cb(binary, d, coin, cbname, dump, timeout=600)
        counters["runs"] += 1
        counters["runs:" + profile] = counters.get("runs:" + profile, 0) + 1
        if p.rc != 0 or "panicked" in p.err:
            v.append(viol("abort:%s" % field, "%s exited %s on %s (%s build) with hostile %s content: %s" % (
                cbname, p.rc, coin, profile, field, (p.err or p.out)[-400:].replace("\n", " | "))))
            continue
        if cbname == "csvdump":
            bad = oracles.check_csvdump(p, dump, chain, coin)
        elif cbname == "unspentcsvdump":
            bad = oracles.check_unspent(p, dump, chain, coin)
        elif cbname == "balances":
            bad = oracles.check_balances(p, dump, chain, coin)
        elif cbname == "simplestats":
            bad = oracles.check_stats(p, chain, coin)
        else:
            bad = oracles.check_opreturn(p, chain, coin, exp=opreturn_exp(chain, coin, hostile_scripts))
        if field == "spk" and bad:
            # C14 is about values NOT derived from the hostile field: the type / address / payload the tool derives from
            # a hostile scriptPubKey itself belongs to C05/C06/C16. Re-judge with those derived values masked.
            bad = rejudge_spk(bad, cbname, p, dump, chain, coin, hostile_scripts)
        v.extend(viol("disturbed:%s:%s" % (field, sig), "%s [coin=%s build=%s hostile field=%s]" % (det, coin, profile, field)) for sig, det in bad)
        for f in fams:
            shapes.add("%s|%s|%s|%s|%s" % (field, f, "btc" if COINS[coin].bitcoin_rules else "fork", profile, cbname))
    shutil.rmtree(work, ignore_errors=True)
    return {"evaluations": counters["runs"], "violations": v, "counters": counters, "shapes": sorted(shapes),
            "sample": {"coin": coin, "field": field, "build": profile, "blocks": len(chain), "example": pick[0][1][:40].hex(), "family": pick[0][0]}}


def dispatch(spec):
    return case(spec) if spec["case"] == "chain" else sc.unit_case(spec)


def plan(chk):
    specs = []
    n = 0
    rng = chk.rng("plan")
    for profile in ("debug", "release"):
        for ci, coin in enumerate(COIN_NAMES):
            # in-process volume
            specs.append(dict(case="unit", family="hostile", coin=coin, seed=chk.seed, profile=profile, big=(profile == "release" or chk.thorough), totality_only=True))
            specs.append(dict(case="unit", family="fork_templates", coin=coin, seed=chk.seed, profile=profile, totality_only=True))
            specs.append(dict(case="unit", family="leading", coin=coin, seed=chk.seed, profile=profile, totality_only=True))
            specs.append(dict(case="unit", family="multisig", coin=coin, seed=chk.seed, profile=profile, totality_only=True))
            nt = 300000 if chk.thorough else 12000
            for part in range(max(1, nt // 15000)):
                specs.append(dict(case="unit", family="random_tokens", coin=coin, seed=chk.seed, part=part, n=min(nt, 15000), profile=profile, totality_only=True))
            nb = 60000 if chk.thorough else 3000
            for part in range(max(1, nb // 3000)):
                specs.append(dict(case="unit", family="random_bytes", coin=coin, seed=chk.seed, part=part, n=min(nb, 3000), maxlen=100000 if part == 0 else 10000,
                                  profile=profile, totality_only=True))
            # whole-program runs
            reps = 6 if chk.thorough else 1
            for rep in range(reps):
                for field in FIELDS:
                    if not chk.thorough and profile == "release" and (ci + FIELDS.index(field)) % 2:
                        continue
                    n += 1
                    specs.append(dict(case="chain", coin=coin, field=field, profile=profile, seed=chk.seed + rep, n=n,
                                      count=400 if chk.thorough else 120, big=(rep == 0 and field != "sig") or chk.thorough))
    return specs


def main():
    chk = core.Check("C14")
    core.build("release")
    core.build("debug")
    core.ldbtool()
    specs = plan(chk)
    for sp in specs:
        sp["work"] = chk.workdir
    for res in core.parallel(dispatch, specs):
        chk.absorb(res)
    chk.finish(RULE, floor={"runs:debug": 60, "runs:release": 30, "scripts:debug": 30000, "scripts:release": 30000, "hostile_fields": 2000},
               assumptions=["chains are otherwise valid (canonical CompactSize, coinbase has outputs)",
                            "debug profile = overflow/bounds checks on: the relevant 'sanitizer' for this safe-Rust code base"])


def replay(spec):
    core.replay_case("C14", {"chain": case, "unit": sc.unit_case}, spec)
