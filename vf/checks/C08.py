"""C08 — balances lists each address once with the sum of its unspent outputs."""
import collections
import os
import random
import shutil

from .. import core, harness, datadir, model, oracles, histories, gen
from ..chain import COINS, Tx, TxIn, TxOut
from ..core import viol
from ..gen import rbytes
from ..ser import hash160

RULE = ("C07 histories (all event sequences of <=3 (quick) / <=4 (thorough) events in every split, random long histories) plus "
        "balance-specific chains: few addresses with many outputs each, the same address reached through P2PK and P2PKH of one key, "
        "addresses fully spent and re-funded, per-address sums above 2^32 and close to 2^64, more than 65,536 addresses; x ranges x coins. Real `balances` runs: "
        "header + one row per address, balance = model sum; and the two-run relation: the balances file must equal the per-address "
        "aggregation of the unspentcsvdump file produced from the same directory and range. "
        "One long run (more than 2^16 blocks in one process, three blk files) is compared with the model as well: thresholds of anything a run accumulates. On fork coins the owners include address-bearing scripts of 10,000 / 10,001 / 12,025 bytes (no-op padding) and P2SH / P2PK templates with 10 kB pushes. distinct = (chain kind, coin, range kind) signatures")

COINS3 = ["bitcoin", "litecoin", "dogecoin", "testnet3", "namecoin"]


def same_key_scripts(rng, coin, k):
    pk = b"\x02" + k[:32].ljust(32, b"\x07")
    h = hash160(pk)
    out = [b"\x21" + pk + b"\xac", b"\x76\xa9\x14" + h + b"\x88\xac"]
    return out


def balance_chain(rng, coin, mode, nblocks=8):
    cb = gen.ChainBuilder(rng, coin)
    keys = [rbytes(rng, 32) for _ in range(rng.randint(2, 6))]
    scripts = [s for k in keys for s in same_key_scripts(rng, coin, k)]
    if not COINS[coin].bitcoin_rules:
        # fork coins type by template with no-ops ignored and any non-empty push in a data slot: scripts far beyond 10,000 bytes (the
        # consensus limit for *spending*) still carry an address and own their outputs like any other
        import struct as _st
        from .. import script_ref as _sr
        h = rbytes(rng, 20)
        big = [b"\x76\xa9\x14" + h + b"\x88\xac" + b"\x61" * n for n in (9975, 9976, 12000)]
        big.append(b"\xa9\x4d" + _st.pack("<H", 10100) + rbytes(rng, 10100) + b"\x87")
        big.append(b"\x4d" + _st.pack("<H", 10050) + rbytes(rng, 10050) + b"\xac")
        scripts += [s for s in big if _sr.classify(s, COINS[coin]).address]
    if mode == "bigsum":
        # address A accumulates more than 2^63 (but less than 2^64), address B sums above 2^32
        a_vals = [1 << 63, 1 << 61, (1 << 60) - rng.randint(1, 1000)]
        b_vals = [rng.choice([(1 << 32) - 1, 1 << 32, (1 << 32) + 1, 1 << 40, 1 << 57, rng.getrandbits(56)]) for _ in range(12)]
        todo = [(v, scripts[0] if i % 2 else scripts[1]) for i, v in enumerate(a_vals)] + [(v, scripts[2]) for v in b_vals]
        rng.shuffle(todo)
        it = iter(todo)
        for b in range(nblocks):
            outs = []
            for _ in range(rng.randint(1, 3)):
                x = next(it, None)
                if x is not None:
                    outs.append(TxOut(x[0], x[1]))
            txs = [Tx(1, [TxIn(rbytes(rng, 32), 0, b"", 0xFFFFFFFF)], outs, 0)] if outs else []
            cb.add_block(txs=txs, coinbase_outs=[TxOut(50 * 10**8, scripts[3])])
        return cb.chain()
    own = []   # (txid, idx, script)
    for b in range(nblocks):
        txs = []
        for _ in range(rng.randint(1, 6)):
            outs = [TxOut(rng.choice([0, 1, 1000, rng.randint(0, 10**9)]), rng.choice(scripts)) for _ in range(rng.randint(1, 12))]
            ins = []
            if mode == "refund" and own and rng.random() < 0.7:
                # spend *all* outputs of one address, re-fund it later
                target = rng.choice(own)[2]
                for o in [o for o in own if o[2] == target]:
                    ins.append(TxIn(o[0], o[1], b"", 0xFFFFFFFF))
                    own.remove(o)
            elif own and rng.random() < 0.6:
                for _ in range(rng.randint(1, 4)):
                    if own:
                        o = own.pop(rng.randrange(len(own)))
                        ins.append(TxIn(o[0], o[1], b"", 0xFFFFFFFF))
            if not ins:
                ins = [TxIn(rbytes(rng, 32), 0, b"", 0xFFFFFFFF)]
            t = Tx(1, ins, outs, 0)
            txs.append(t)
            for i, o in enumerate(outs):
                own.append((t.txid, i, o.script))
        cb.add_block(txs=txs, coinbase_outs=[TxOut(50 * 10**8, rng.choice(scripts))])
    return cb.chain()


def check_pair(binary, d, coin, chain, work, s, e, rk, desc):
    """balances run + unspentcsvdump run on the same directory and range"""
    v = []
    dump = harness.fresh(os.path.join(work, "ob"))
    p = harness.run_cb(binary, d, coin, "balances", dump, s, e, timeout=900)
    bad = oracles.check_balances(p, dump, chain, coin, s or 0, e)
    v.extend(viol(sig, "%s [%s range=%s..%s (%s) coin=%s]" % (det, desc, s, e, rk, coin)) for sig, det in bad)
    dump2 = harness.fresh(os.path.join(work, "ou"))
    p2 = harness.run_cb(binary, d, coin, "unspentcsvdump", dump2, s, e, timeout=900)
    rel = 0
    if p.rc == 0 and p2.rc == 0:
        gb = [t for n, t in harness.read_dump(dump).items() if n.startswith("balances-")]
        gu = [t for n, t in harness.read_dump(dump2).items() if n.startswith("unspent-")]
        if gb and gu:
            rows, _ = oracles.parse_rows(gb[0], oracles.BALANCES_HEADER)
            have = {}
            ok = True
            for r in rows:
                f = r.split(";")
                if len(f) == 2 and f[1].isdigit():
                    have[f[0]] = int(f[1])
            agg = oracles.aggregate_unspent(gu[0])
            rel = 1
            if have != agg:
                diff = [(a, have.get(a), agg.get(a)) for a in sorted(set(have) | set(agg)) if have.get(a) != agg.get(a)][:3]
                v.append(viol("relation:balances-vs-unspent", "balances file != aggregation of the unspent dump of the same directory/range "
                                                              "(address, balances, aggregated): %s [%s range=%s..%s]" % (diff, desc, s, e)))
    return v, 2, rel


def case(spec):
    coin = spec["coin"]
    rng = random.Random("C08|%s|%s" % (spec["seed"], spec["n"]))
    kind = spec["kind"]
    if kind == "wide":
        # more than 65,536 distinct addresses / outputs of one transaction, some spent later
        cbw = gen.ChainBuilder(rng, coin)
        cbw.add_block(n_tx=1)
        wide = Tx(1, [TxIn(rbytes(rng, 32), 0, b"", 0xFFFFFFFF)], [TxOut(1 + i, histories.p2pkh_for(b"w%d" % (i % 65538))) for i in range(65560)], 0)
        cbw.add_block(txs=[wide])
        # more than 2^16 (and 2^17) unspent outputs that belong to a FEW addresses (each owns hundreds of outputs spread over the
        # whole set), in blocks that stay below 1 MB
        for part in range(3):
            cbw.add_block(txs=[Tx(1, [TxIn(rbytes(rng, 32), 0, b"", 0xFFFFFFFF)],
                                  [TxOut(10**6 + part * 10**5 + i, histories.p2pkh_for(b"few%d" % (i % 211))) for i in range(25000)], 0)])
        cbw.add_block(txs=[Tx(1, [TxIn(wide.txid, i, b"", 0xFFFFFFFF) for i in (0, 255, 256, 65535, 65536, 65559)], [TxOut(5, histories.p2pkh_for(b"w1"))], 0)])
        chain = cbw.chain()
    elif kind == "lanes":
        chain, _ = histories.lanes_chain(rng, coin, histories.all_sequences(spec["k"]), spec["split"], lane_base=spec["n"] * 10**6, many=260 if spec["k"] <= 2 else 3)
    elif kind == "random":
        chain = histories.random_history_chain(rng, coin, spec["events"], spec["blocks"], big_values=spec.get("big", False) and False)
    else:
        chain = balance_chain(rng, coin, kind, spec.get("blocks", 8))
    work = harness.fresh(os.path.join(spec["work"], "c%d" % spec["n"]))
    d = os.path.join(work, "d")
    datadir.write_datadir(d, COINS[coin], harness.simple_layout(chain))
    binary = core.build(spec.get("profile", "release"))
    tip = chain[-1][0]
    ranges = [(None, None, "full")]
    if tip > 2 and spec.get("ranges", True):
        ranges += [(rng.randint(1, tip - 1), None, "start-inside"), (None, rng.randint(1, tip - 1), "end-inside")]
    v, runs, rels = [], 0, 0
    for s, e, rk in ranges:
        vv, r, rel = check_pair(binary, d, coin, chain, work, s, e, rk, "%s chain" % kind)
        v.extend(vv)
        runs += r
        rels += rel
    utxo, _ = model.utxo_expected(chain, coin)
    bal = model.balances_expected(utxo)
    shutil.rmtree(work, ignore_errors=True)
    counters = {"runs": runs, "relation_checks": rels, "addresses_expected_full": len(bal),
                "addresses_with_several_outputs": sum(1 for c in collections.Counter(x[2] for x in utxo.values()).values() if c > 1)}
    if any(x > (1 << 32) for x in bal.values()):
        counters["balances_above_2^32"] = sum(1 for x in bal.values() if x > (1 << 32))
    if any(x > (1 << 63) for x in bal.values()):
        counters["balances_above_2^63"] = 1
    return {"evaluations": runs, "violations": v, "counters": counters,
            "shapes": ["%s|%s|%s" % (kind if kind != "lanes" else "lanes-k%d-%s" % (spec["k"], "-".join(map(str, spec["split"]))), coin, rk) for _, _, rk in ranges],
            "sample": {"kind": kind, "coin": coin, "blocks": len(chain), "addresses": len(bal)}}


def plan(chk):
    rng = chk.rng("plan")
    specs = []
    n = 0
    maxk = 4 if chk.thorough else 3
    for k in range(1, maxk + 1):
        for split in histories.compositions(k, 3):
            n += 1
            specs.append(dict(case="case", kind="lanes", coin=COINS3[n % 3], seed=chk.seed, n=n, k=k, split=split))
    n += 1
    specs.append(dict(case="case", kind="wide", coin=COINS3[chk.seed % len(COINS3)], seed=chk.seed, n=n, ranges=False))
    for i in range(400 if chk.thorough else 24):
        for kind in ("shared", "refund", "bigsum"):
            n += 1
            specs.append(dict(case="case", kind=kind, coin=COINS3[n % len(COINS3)], seed=chk.seed, n=n, blocks=rng.choice([4, 8, 15]),
                              profile="debug" if n % 5 == 0 else "release"))
    for i in range(600 if chk.thorough else 30):
        n += 1
        specs.append(dict(case="case", kind="random", coin=rng.choice(list(COINS)), seed=chk.seed, n=n, events=rng.choice([50, 150, 400, 1500]),
                          blocks=rng.choice([3, 8, 20])))
    return specs


def _dispatch(spec):
    from .. import longrun
    return longrun.long_case(spec) if spec.get("case") == "long" else case(spec)


def main():
    chk = core.Check("C08")
    core.build("release")
    core.build("debug")
    core.ldbtool()
    specs = plan(chk)
    for sp in specs:
        sp["work"] = chk.workdir
    specs.sort(key=lambda s: -(10 ** 7 if s["kind"] == "wide" else (10 ** s.get("k", 0) if s["kind"] == "lanes" else s.get("events", 0))))
    from ..chain import COIN_NAMES
    specs.insert(0, dict(case="long", callback="balances", coin=COIN_NAMES[(chk.seed + 2) % 8], seed=chk.seed, n=0, blocks=(140000 if chk.thorough else 70000), verify=False, work=chk.workdir))
    for res in core.parallel(_dispatch, specs, jobs=min(core.NPROC, 12)):
        chk.absorb(res)
    chk.finish(RULE, floor={"runs": 200, "relation_checks": 100, "balances_above_2^32": 5, "balances_above_2^63": 1, "addresses_with_several_outputs": 100},
               assumptions=["per-address sums stay below 2^64 (not representable otherwise)", "UTXO semantics as in C07"])


def replay(spec):
    from .. import longrun
    core.replay_case("C08", {"case": case, "long": longrun.long_case}, spec)
