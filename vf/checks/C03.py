"""C03 — a block is read from the file and offset its index record names, wherever it is."""
import hashlib
import os
import random
import shutil

from .. import core, harness, datadir, model, oracles, layouts
from ..chain import COINS, COIN_NAMES
from ..core import viol

RULE = ("one logical chain x many physical layouts (blocks->files assignment: single/contiguous/round-robin/random/reversed/"
        "interleaved/one-per-file; 1..300 files; file numbers sequential, sparse, up to 2^64-1; file-name padding 0/1/5/8 digits; gaps of "
        "zeros / random bytes / foreign-magic blocks / unindexed real blocks; sparse offsets beyond 4 GiB; extra 'f','l','R','F','t' keys; "
        "extra directory entries; index as log only / several tables / several sessions / compacted; base heights up to millions; a quarter "
        "of the directories XOR-obfuscated; plus content kinds of the other checks - AuxPoW sections, spend histories, statistics "
        "chains, hostile scripts, OP_RETURN payloads - x layouts x obfuscation x --verify x ranges x index records that lose their "
        "height x all five callbacks): real "
        "csvdump (+unspentcsvdump) run per layout; output must equal the model and be identical across layouts of the same chain; the H2 "
        "fetch log must name exactly the (file, offset) of the record of each height. "
        "Also: records longer than their block, index churn (keys rewritten / ghost records deleted over several database sessions), xor.dat as a link to a key file of another name, and cases in which the block files belong to another account than the one running the tool. Directory extras include symbolic links that lead nowhere (dangling, relative, loop) named by no record. distinct = (assignment, #files class, gaps, numbering, padding, sparse, extras, index style) signatures")

INDEX_STYLES = [{}, {"write_buffer": 4096}, {"write_buffer": 2048, "sessions": 3}, {"write_buffer": 4096, "compact": True},
                {"sessions": 2}]


def case(spec):
    coin = spec["coin"]
    crng = random.Random("C03chain|%s|%s" % (spec["chain_seed"], coin))
    chain = layouts.layout_chain(crng, coin, spec.get("blocks", 14), start_height=spec.get("base", 0))
    lrng = random.Random("C03layout|%s|%s" % (spec["chain_seed"], spec["n"]))
    L = spec["layout"]
    kw, desc, pl_index = layouts.make_layout(lrng, chain, coin, **L)
    idx = dict(kw["index_opts"])
    if spec.get("shuffle_index"):
        idx["shuffle_rng"] = random.Random(spec["n"])
    kw["index_opts"] = idx
    work = harness.fresh(os.path.join(spec["work"], "c%d" % spec["n"]))
    d = os.path.join(work, "d")
    xor_key = None
    if spec.get("xor"):
        # the layout guarantee must also hold for obfuscated directories (files revisited after other files were read)
        xor_key = bytes(lrng.randrange(1, 256) for _ in range(lrng.choice([8, 8, 3, 16])))
    datadir.write_datadir(d, COINS[coin], xor_key=xor_key, **kw)
    binary = core.build(spec.get("profile", "release"))
    start = chain[0][0] if chain[0][0] > 0 else None
    verify = spec.get("verify", False)
    if verify:
        start = chain[0][0] + 1     # the first block only serves as the linked predecessor record
    log = os.path.join(work, "ev.jsonl")
    dump = harness.fresh(os.path.join(work, "o"))
    runas = None
    if spec.get("owner") and os.geteuid() == 0:
        # the node's files belong to the node's account (bitcoind runs as `bitcoin`), the analyst has read access and runs the tool under
        # another, unprivileged account: same bytes, same layout, same result. The index copy, dump folder and scratch files are the analyst's.
        node, analyst = (64001, 64001), (64002, 64002)
        roots = [d] + ([os.path.abspath(d).rstrip("/") + ".elsewhere"] if os.path.isdir(os.path.abspath(d).rstrip("/") + ".elsewhere") else [])
        for root in roots:
            for dp, dns, fns in os.walk(root):
                mine = os.path.basename(dp) == "index" or "/index/" in dp + "/"
                os.chown(dp, *(analyst if mine else node))
                for fn in fns:
                    fp = os.path.join(dp, fn)
                    os.chown(fp, *(analyst if mine else node), follow_symlinks=False)
                    if not os.path.islink(fp) and not mine:
                        os.chmod(fp, 0o644)
        for pth in (work, dump):
            os.chown(pth, *analyst)
        runas = analyst
    p = harness.run_cb(binary, d, coin, "csvdump", dump, start, None, verify=verify, log=log, timeout=600, **({"user": runas} if runas else {}))
    v = []
    bad = oracles.check_csvdump(p, dump, chain, coin, start or 0, None)
    v.extend(viol(sig, "%s [layout=%s coin=%s]" % (det, desc, coin)) for sig, det in bad)
    ev = harness.read_events(log)
    fetches = [e for e in ev if e["ev"] == "fetch"]
    counters = {"runs": 1, "fetch_events": len(fetches), "xor_obfuscated_layouts": 1 if xor_key else 0, "runs_as_another_user_than_the_files_owner": 1 if runas else 0}
    byh = {h: i for i, (h, b) in enumerate(chain)}
    sizes = {h: len(b.ser()) for h, b in chain}
    for e in fetches:
        i = byh.get(e["height"])
        if i is None:
            continue
        pl = pl_index[i]
        if (e["file"], e["offset"]) != (pl.file, pl.offset):
            v.append(viol("fetch:wrong-record", "height %d fetched from (file %d, offset %d), index record says (file %d, offset %d) [layout=%s]" % (
                e["height"], e["file"], e["offset"], pl.file, pl.offset, desc)))
            break
    nexp = len(model.in_range(chain, start or 0, None))
    if p.rc == 0 and len(fetches) != nexp:
        v.append(viol("fetch:count", "%d fetch events for %d blocks" % (len(fetches), nexp)))
    for k, n in layouts.classify_seeks(ev, kw["names"], sizes).items():
        counters["seek:" + k] = n
    if any(pl.offset is not None and pl.offset > (1 << 32) for pl in kw["placements"]):
        counters["offsets_beyond_4GiB"] = 1
    if any(pl.file > 0xFFFFFFFF for pl in kw["placements"]):
        counters["file_numbers_beyond_u32"] = 1
    digest = None
    if p.rc == 0:
        got = harness.read_dump(dump)
        digest = hashlib.sha256("".join(got[k] for k in sorted(got)).encode()).hexdigest()
    if spec.get("also_unspent"):
        dump2 = harness.fresh(os.path.join(work, "o2"))
        p2 = harness.run_cb(binary, d, coin, "unspentcsvdump", dump2, start, None)
        counters["runs"] += 1
        v.extend(viol(sig, "%s [layout=%s coin=%s]" % (det, desc, coin)) for sig, det in oracles.check_unspent(p2, dump2, chain, coin, start or 0, None))
    shutil.rmtree(work, ignore_errors=True)
    nf = desc["files"]
    fclass = "1" if nf == 1 else ("2-9" if nf < 10 else ("10-99" if nf < 100 else "100+"))
    shape = "%s|f%s|%s|%s|pad%s|sp%d|ex%d|%s|base%s" % (desc["assign"], fclass, desc["gaps"], desc["numbering"], desc["pad"], desc["sparse"], desc["extras"],
                                                       sorted(desc["index"].items()), "0" if not spec.get("base") else "high")
    return {"evaluations": counters["runs"], "violations": v, "counters": counters, "shapes": [shape],
            "digest": (spec["chain_seed"], coin, "%s|%s" % (spec.get("base", 0), start), digest),
            "sample": {"coin": coin, "layout": desc, "blocks": len(chain)}}


def combo_chain(kind, coin, seed):
    """chains of the kinds the other checks use (AuxPoW sections, spend histories, statistics chains, hostile scripts,
    OP_RETURN payloads): layout independence must hold for every callback on every kind of content"""
    rng = random.Random("C03combo|%s|%s|%s" % (kind, coin, seed))
    if kind == "auxpow":
        from . import C12
        chain, _ = C12.build(dict(seed=seed, n=seed, coin=coin, versions=["below", "at", "above", "max", "one"], branch_lengths=[0, 1, 5, 32, 40], blocks=8))
        return chain
    if kind == "history":
        from .. import histories
        return histories.random_history_chain(rng, coin, 150, 8)
    if kind == "stats":
        from . import C15
        return C15.build(dict(seed=seed, n=seed, coin=coin, kind="multi-coinbase", blocks=8))
    if kind == "hostile":
        from .. import scriptgen, gen as g
        from ..chain import TxOut
        pool = [s_ for _, s_ in scriptgen.fam_hostile(rng, big=False)]
        rng.shuffle(pool)
        from . import scriptcommon
        return scriptcommon.embed_chain(rng, coin, [x for x in pool[:150] if len(x) < 3000], outs_per_tx=5, txs_per_block=3)
    if kind == "opreturn":
        from . import C16, scriptcommon
        outs = C16.build_outputs(dict(seed=seed, n=seed, coin=coin, classes=["ascii", "utf8", "badutf8", "newline"], lengths=list(range(0, 140, 3))))
        return scriptcommon.embed_chain(rng, coin, [x for _, x in outs], outs_per_tx=4, txs_per_block=3)
    raise KeyError(kind)


def combo_case(spec):
    """content kind x physical layout x optional XOR obfuscation x all five callbacks"""
    coin, kind = spec["coin"], spec["kind"]
    chain = combo_chain(kind, coin, spec["chain_seed"])
    lrng = random.Random("C03combolayout|%s|%s" % (spec["chain_seed"], spec["n"]))
    kw, desc, pl_index = layouts.make_layout(lrng, chain, coin, **spec["layout"])
    xor_key = bytes(lrng.randrange(0, 256) for _ in range(lrng.choice([8, 8, 5, 13]))) if spec.get("xor") else None
    if spec.get("competitors"):
        layouts.add_harmless_competitors(lrng, chain, coin, kw, count=3)
    work = harness.fresh(os.path.join(spec["work"], "c%d" % spec["n"]))
    d = os.path.join(work, "d")
    datadir.write_datadir(d, COINS[coin], xor_key=xor_key, **kw)
    binary = core.build(spec.get("profile", "release"))
    v, runs = [], 0
    start = 1 if spec.get("verify") else None
    tip = chain[-1][0]
    end = None
    if spec.get("ranged") and tip >= 3:
        start = lrng.randint(1, tip - 1) if (start or lrng.random() < 0.5) else start
        end = lrng.choice([None, lrng.randint((start or 0) + 1, tip + 1)])
    for cbname in ["csvdump", "unspentcsvdump", "balances", "simplestats", "opreturn"]:
        dump = harness.fresh(os.path.join(work, "o"))
        p = harness.run_cb(binary, d, coin, cbname, dump, start, end, verify=bool(spec.get("verify")), timeout=600)
        runs += 1
        S = start or 0
        if cbname == "csvdump":
            bad = oracles.check_csvdump(p, dump, chain, coin, S, end)
        elif cbname == "unspentcsvdump":
            bad = oracles.check_unspent(p, dump, chain, coin, S, end)
        elif cbname == "balances":
            bad = oracles.check_balances(p, dump, chain, coin, S, end)
        elif cbname == "simplestats":
            bad = oracles.check_stats(p, chain, coin, S, end)
        else:
            bad = oracles.check_opreturn(p, chain, coin, S, end)
        v.extend(viol("combo:%s:%s" % (kind, sig), "%s [content=%s layout=%s xor=%s verify=%s range=%s..%s competitors=%s coin=%s]" % (det, kind, desc, bool(xor_key), bool(spec.get("verify")), start, end, bool(spec.get("competitors")), coin)) for sig, det in bad)
    shutil.rmtree(work, ignore_errors=True)
    return {"evaluations": runs, "violations": v, "counters": {"runs": runs, "combo_cases": 1, "combo_cases:" + kind: 1, "xor_obfuscated_layouts": 1 if xor_key else 0},
            "shapes": ["combo|%s|%s|xor%d|v%d" % (kind, desc["assign"], bool(xor_key), bool(spec.get("verify")))],
            "sample": {"kind": "combo", "content": kind, "coin": coin, "layout": desc, "xor": bool(xor_key)}}


def dispatch(spec):
    return combo_case(spec) if spec["case"] == "combo" else case(spec)


def layout_plan(rng, count, max_files):
    """count layouts covering every dimension's extremes first, then random combinations"""
    out = []
    base = dict(assign="contiguous", nfiles=3, gaps="none", numbering="seq", pad=5, sparse=False, extras=False, index_style={})
    for a in layouts.ASSIGN:
        out.append(dict(base, assign=a, nfiles=4))
    for g in layouts.GAPS:
        out.append(dict(base, gaps=g, assign="random"))
    for nm in layouts.NUMBERING:
        out.append(dict(base, numbering=nm, assign="round_robin", nfiles=6))
    for pd in layouts.PADS:
        out.append(dict(base, pad=pd))
    out.append(dict(base, sparse=True, assign="reversed"))
    out.append(dict(base, extras=True))
    out.append(dict(base, symlinks=True, assign="round_robin"))
    for st in INDEX_STYLES:
        out.append(dict(base, index_style=st, assign="random", nfiles=5))
    out.append(dict(base, assign="one_per_file", nfiles=max_files, numbering="huge", pad=0, extras=True))
    out.append(dict(base, assign="round_robin", nfiles=max_files, gaps="mixed", file_order="shuffled"))
    while len(out) < count:
        out.append(dict(assign=rng.choice(layouts.ASSIGN), nfiles=rng.choice([1, 2, 3, 5, 8, 13, max_files]), gaps=rng.choice(layouts.GAPS),
                        numbering=rng.choice(layouts.NUMBERING), pad=rng.choice(layouts.PADS), sparse=rng.random() < 0.15, extras=rng.random() < 0.4,
                        index_style=rng.choice(INDEX_STYLES), file_order=rng.choice(["asc", "desc", "shuffled"]), symlinks=rng.random() < 0.2))
    return out[:count] if count >= 27 else out


def plan(chk):
    rng = chk.rng("plan")
    specs = []
    n = 0
    nchains = 30 if chk.thorough else 6
    nlay = 40 if chk.thorough else 12
    for c in range(nchains):
        coin = COIN_NAMES[c % 8]
        base = 0 if c % 3 else rng.choice([0, 128, 16512, 2113664, 800000])
        blocks = rng.choice([10, 14, 20]) if not (chk.thorough and c % 10 == 0) else 320
        lays = layout_plan(rng, nlay, 300 if blocks >= 300 else blocks)
        if not chk.thorough:
            # quick: extremes are spread over the chains instead of repeated for each
            allp = layout_plan(rng, 27 + 7 * nchains, blocks)
            lays = allp[:27][c::nchains] + allp[27 + 7 * c:27 + 7 * (c + 1)]
        for L in lays:
            n += 1
            specs.append(dict(case="case", coin=coin, chain_seed=chk.seed * 1000 + c, n=n, layout=L, base=base, blocks=blocks,
                              verify=(n % 2 == 0), also_unspent=(n % 5 == 0) and n % 7 != 3, shuffle_index=(n % 3 == 0), xor=(n % 4 == 1),
                              owner=(n % 7 == 3), profile="debug" if n % 11 == 0 else "release"))
    # content kinds of the other checks x layouts x obfuscation x all callbacks
    kinds = ["auxpow", "history", "stats", "hostile", "opreturn"]
    lays = [dict(assign="round_robin", nfiles=3), dict(assign="random", nfiles=4, gaps="random"), dict(assign="reversed", nfiles=2, gaps="zeros"),
            dict(assign="interleaved2", nfiles=4, file_order="shuffled"), dict(assign="contiguous", nfiles=3, gaps="unindexed", sparse=True),
            dict(assign="one_per_file", nfiles=99, numbering="sparse", pad=0)]
    for i in range(300 if chk.thorough else 40):
        n += 1
        kind = kinds[i % 5]
        coin = ["namecoin", "dogecoin"][i % 2] if kind == "auxpow" else COIN_NAMES[(i * 3) % 8]
        specs.append(dict(case="combo", kind=kind, coin=coin, chain_seed=chk.seed * 1000 + i, n=n, layout=lays[i % len(lays)], xor=(i % 2 == 0),
                          verify=(i % 3 == 0), ranged=(i % 4 in (1, 2)), competitors=(i % 5 in (0, 3)), profile="debug" if i % 7 == 0 else "release"))
    return specs


def main():
    chk = core.Check("C03")
    core.build("release")
    core.build("debug")
    core.ldbtool()
    specs = plan(chk)
    for sp in specs:
        sp["work"] = chk.workdir
    digests = {}
    for res in core.parallel(dispatch, specs):
        chk.absorb(res)
        if res.get("digest") and res["digest"][3]:
            digests.setdefault(tuple(res["digest"][:3]), set()).add(res["digest"][3])
    for key, ds in digests.items():
        chk.count("chains_compared_across_layouts")
        if len(ds) > 1:
            chk.violation("metamorphic:layouts-differ", "chain %s produced %d different csvdump results across layouts" % (key, len(ds)),
                          {"case": "case", "note": "cross-layout digest mismatch", "chain": list(key)})
    chk.finish(RULE, floor={"runs": 50, "fetch_events": 500, "seek:backward_near": 1, "seek:forward_beyond_buffer": 1, "seek:forward_within_buffer": 1,
                            "offsets_beyond_4GiB": 1, "file_numbers_beyond_u32": 1, "chains_compared_across_layouts": 3},
               assumptions=["two file names that parse to the same number (blk1.dat / blk00001.dat) are never generated",
                            "index values are real CDiskBlockIndex encodings written through rusty-leveldb 3.0.2",
                            "XOR-obfuscated layouts are covered by C11, descriptor lifetime by C17"])


def replay(spec):
    core.replay_case("C03", {"case": case, "combo": combo_case}, spec)
