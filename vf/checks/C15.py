"""C15 — every simplestats figure equals an independent recomputation over the range."""
import os
import random
import shutil
from fractions import Fraction

from .. import core, harness, datadir, model, oracles, gen
from ..chain import COINS, COIN_NAMES, Tx, TxIn, TxOut, ZERO32
from ..core import viol
from ..gen import rbytes

RULE = ("chains with every script type, non-monotonic timestamps (gaps clamped to 0), ties for both maxima (first wins), several coinbase-"
        "shaped transactions and near-coinbase look-alikes per block, coinbase first-output above/below/equal the subsidy at halving boundaries (sparse windows around "
        "heights 210000*k), timestamp gaps whose sum exceeds 2^32, segwit txs (witness-stripped size), x 8 coins x ranges, on debug and "
        "release builds: the real simplestats report is parsed (type table as a set) and every figure compared with exact rational "
        "recomputation rendered at the printed precision. Plus utils::get_mean on random u32 multisets (incl. sums > 2^32) through the "
        "guarded mean tool mode. One long run (more than 2^16 blocks in one process, three blk files) is compared with the model as well: thresholds of anything a run accumulates. distinct = (chain kind, coin, build, range kind) signatures + multiset classes")


def typed_out(rng, cb, coin):
    kinds = gen.STD_KINDS_BTC if COINS[coin].bitcoin_rules else gen.STD_KINDS_FORK
    return cb.out(rng.choice(kinds), value=rng.choice([0, 1, 546, 10**8, rng.randint(0, 10**10)]))


def build(spec):
    rng = random.Random("C15|%s|%s" % (spec["seed"], spec["n"]))
    coin, kind = spec["coin"], spec["kind"]
    base = spec.get("base", 0)
    cb = gen.ChainBuilder(rng, coin, start_height=base, time0=rng.randint(1, 2**31))
    nb = spec.get("blocks", 8)
    for i in range(nb):
        h = cb.height
        reward = model.base_reward(h)
        t = None
        if kind == "gaps-overflow":
            t = [1, 0xFFFFFFF0, 5, 0xFFFFFFF0, 6, 0xFFFFFFFE, 7, 0xFFFFFFFF][i % 8] + (i // 8)
            t = min(t, 0xFFFFFFFF)
        elif kind == "nonmonotonic":
            t = rng.choice([rng.randint(1, 2**32 - 1), cb.time + rng.randint(-5000, 5000), 1, 2**32 - 1])
            t = max(1, min(t, 2**32 - 1))
            cb.time = t
        cbv = rng.choice([reward, reward - 1 if reward else 0, reward + 1, reward + rng.randint(0, 10**8), 0, rng.randint(0, 2 * reward + 10)])
        cb_outs = [TxOut(cbv, gen.std_script(rng, coin, rng.choice(["p2pkh", "p2pk65", "p2sh"])))] + [typed_out(rng, cb, coin) for _ in range(rng.randint(0, 2))]
        txs = []
        for _ in range(rng.randint(0, 5)):
            tx = cb.spend_tx(rng.randint(1, 3), outs=[typed_out(rng, cb, coin) for _ in range(rng.randint(1, 5))])
            txs.append(tx)
        if kind == "ties" and txs:
            # two later transactions tie with the current maxima (same total value, same stripped size)
            a = txs[0]
            twin = Tx(a.version, [TxIn(rbytes(rng, 32), i.prev_index, bytes(len(i.script_sig)), i.sequence, i.witness) for i in a.ins],
                      [TxOut(o.value, o.script) for o in a.outs], a.locktime, segwit=a.segwit)
            txs.append(twin)
            big = max(txs, key=lambda x: sum(o.value for o in x.outs))
            txs.append(Tx(1, [TxIn(rbytes(rng, 32), 0, b"", 0)], [TxOut(sum(o.value for o in big.outs), b"\x51")], 0))
        if kind == "size-boundary" and i == nb // 2:
            # the biggest transaction by size has a count or a length exactly on a CompactSize width boundary, and a runner-up that is
            # one or two bytes smaller / bigger comes before or after it (the size must be exact, not only "big")
            B = spec["boundary"]
            dim = spec["dim"]
            if dim == "spk":
                x = Tx(1, [TxIn(rbytes(rng, 32), 0, b"", 0)], [TxOut(5, b"\x6a" + rbytes(rng, B - 1))], 0)
            elif dim == "sig":
                x = Tx(1, [TxIn(rbytes(rng, 32), 0, rbytes(rng, B), 0)], [TxOut(5, b"\x51")], 0)
            elif dim == "nout":
                x = Tx(1, [TxIn(rbytes(rng, 32), 0, b"", 0)], [TxOut(k, b"\x51") for k in range(B)], 0)
            else:
                x = Tx(1, [TxIn(rbytes(rng, 32), k, b"", 0) for k in range(B)], [TxOut(5, b"\x51")], 0)
            if spec.get("segwit"):
                x = Tx(x.version, [TxIn(i_.prev_txid, i_.prev_index, i_.script_sig, i_.sequence, [rbytes(rng, 5000)]) for i_ in x.ins], x.outs, 0, segwit=True)
            target = len(x.ser_nowit()) + spec["delta"]
            # runner-up: one input, one output whose script makes up the rest (10 + 41 + 9 bytes of frame, 3-byte length prefix)
            filler = max(300, target - 10 - 41 - 9 - 3 + 1)
            y = Tx(1, [TxIn(rbytes(rng, 32), 0, b"", 0)], [TxOut(7, b"\x6a" + rbytes(rng, filler - 1))], 0)
            adj = target - len(y.ser_nowit())
            if adj and len(y.outs[0].script) + adj > 300:
                y = Tx(1, y.ins, [TxOut(7, b"\x6a" + rbytes(rng, len(y.outs[0].script) + adj - 1))], 0)
            pair = [x, y] if spec.get("first", "x") == "x" else [y, x]
            txs.extend(pair)
        if kind == "multi-coinbase" or rng.random() < 0.2:
            # further coinbase-shaped transactions (single null input) anywhere in the block
            for _ in range(rng.randint(1, 2)):
                txs.insert(rng.randint(0, len(txs)), Tx(1, [TxIn(ZERO32, 0xFFFFFFFF, rbytes(rng, 4), 0xFFFFFFFF)],
                                                          [TxOut(rng.choice([reward + 5, reward, 3]), gen.std_script(rng, coin, "p2pkh"))], 0))
        if kind == "multi-coinbase" or rng.random() < 0.3:
            # near-coinbase transactions that must NOT count towards the fees: null txid with another index, index
            # 0xffffffff with a real txid, two inputs of which the first is the null outpoint
            big = reward + rng.randint(1, 10**6)
            near = [Tx(1, [TxIn(ZERO32, rng.choice([0, 1, 0xFFFFFFFE]), b"", 0xFFFFFFFF)], [TxOut(big, gen.std_script(rng, coin, "p2pkh"))], 0),
                    Tx(1, [TxIn(rbytes(rng, 32), 0xFFFFFFFF, b"", 0xFFFFFFFF)], [TxOut(big, gen.std_script(rng, coin, "p2pkh"))], 0),
                    Tx(1, [TxIn(ZERO32, 0xFFFFFFFF, b"", 0xFFFFFFFF), TxIn(rbytes(rng, 32), 0, b"", 0)], [TxOut(big, gen.std_script(rng, coin, "p2pkh"))], 0)]
            for t_ in near:
                if rng.random() < 0.7:
                    txs.insert(rng.randint(0, len(txs)), t_)
        cb.add_block(txs=txs, time=t, coinbase_outs=cb_outs)
    return cb.chain()


def case(spec):
    coin = spec["coin"]
    chain = build(spec)
    work = harness.fresh(os.path.join(spec["work"], "c%d" % spec["n"]))
    d = os.path.join(work, "d")
    datadir.write_datadir(d, COINS[coin], harness.simple_layout(chain))
    binary = core.build(spec["profile"])
    base = chain[0][0]
    tip = chain[-1][0]
    rng = random.Random("C15r|%s" % spec["n"])
    ranges = [(base if base else None, None, "full")]
    if tip - base > 3:
        ranges += [(base + rng.randint(1, 2), None, "start-inside"), (base if base else None, tip - rng.randint(1, 2), "end-inside")]
    v, runs, shapes = [], 0, []
    for s, e, rk in ranges:
        p = harness.run_cb(binary, d, coin, "simplestats", None, s, e, timeout=300)
        runs += 1
        bad = oracles.check_stats(p, chain, coin, s or 0, e)
        v.extend(viol(sig + ":" + spec["kind"], "%s [kind=%s coin=%s build=%s range=%s..%s]" % (det, spec["kind"], coin, spec["profile"], s, e)) for sig, det in bad)
        shapes.append("%s|%s|%s|%s|%s" % (spec["kind"], coin, spec["profile"], rk, "base0" if not base else "halving"))
    st = model.stats_expected(chain, coin, base, None)
    gaps_sum = 0
    last = 0
    for h, b in chain:
        if last > 0:
            gaps_sum += max(0, b.time - last)
        last = b.time
    shutil.rmtree(work, ignore_errors=True)
    c = {"runs": runs, "runs:" + spec["profile"]: runs, "script_types_seen": len(st["types"])}
    if gaps_sum >= 2**32:
        c["chains_with_gap_sum_above_2^32"] = 1
    return {"evaluations": runs, "violations": v, "shapes": shapes, "counters": c,
            "sample": {"kind": spec["kind"], "coin": coin, "build": spec["profile"], "blocks": len(chain), "base": base, "gap_sum": gaps_sum,
                       "types": sorted(st["types"])}}


def mean_case(spec):
    rng = random.Random("C15m|%s|%s" % (spec["seed"], spec["part"]))
    binary = core.build(spec["profile"])
    lists, classes = [], []
    for _ in range(spec["n"]):
        cls = rng.choice(["small", "mixed", "big", "max", "single", "empty", "many"])
        if cls == "small":
            xs = [rng.randint(0, 1000) for _ in range(rng.randint(1, 50))]
        elif cls == "mixed":
            xs = [rng.choice([0, 1, 600, 2**31, 2**32 - 1, rng.getrandbits(32)]) for _ in range(rng.randint(1, 30))]
        elif cls == "big":
            xs = [rng.randint(2**31, 2**32 - 1) for _ in range(rng.randint(2, 40))]
        elif cls == "max":
            xs = [2**32 - 1] * rng.randint(1, 10)
        elif cls == "single":
            xs = [rng.getrandbits(32)]
        elif cls == "empty":
            xs = []
        else:
            xs = [rng.randint(900000, 4000000) for _ in range(rng.randint(1100, 5000))]   # block sizes of a few thousand full blocks
        lists.append(xs)
        classes.append(cls + ("|sum>2^32" if sum(xs) >= 2**32 else "|sum<2^32"))
    inp = "".join(" ".join(map(str, xs)) + "\n" for xs in lists)
    p = core.run([binary], env={"RBP_VERIF_MEAN": "1"}, stdin=inp, timeout=300)
    if p.rc != 0:
        raise core.Inconclusive("mean tool mode failed: %s" % p.err[-200:])
    out = p.out.split("\n")[:-1]
    if len(out) != len(lists):
        raise core.Inconclusive("mean tool mode returned %d lines for %d lists" % (len(out), len(lists)))
    v = []
    over = 0
    for xs, got, cls in zip(lists, out, classes):
        exact = Fraction(sum(xs), len(xs)) if xs else Fraction(0)
        if sum(xs) >= 2**32:
            over += 1
        ok = got != "PANIC" and abs(Fraction(got) - exact) <= Fraction(1, 10**6) + exact / 10**12
        if not ok and len(v) < 5:
            v.append(viol("get_mean:" + cls.split("|")[1], "get_mean of %d values (sum %d) on the %s build = %s, exact mean %.6f" % (
                len(xs), sum(xs), spec["profile"], got, float(exact))))
    res = {"evaluations": len(lists), "violations": v, "shapes": sorted(set("mean|%s|%s" % (c, spec["profile"]) for c in classes)),
           "counters": {"mean_multisets": len(lists), "mean_multisets_sum_above_2^32": over}}
    if v:
        res["spec"] = dict(spec)
    return res


def dispatch(spec):
    return mean_case(spec) if spec["case"] == "mean" else case(spec)


def plan(chk):
    rng = chk.rng("plan")
    specs = []
    n = 0
    kinds = ["plain", "nonmonotonic", "ties", "multi-coinbase", "gaps-overflow"]
    reps = 40 if chk.thorough else 3
    for profile in ("release", "debug"):
        for rep in range(reps):
            for kind in kinds:
                for ci in range(2):
                    n += 1
                    coin = COIN_NAMES[(n + ci) % 8]
                    specs.append(dict(case="chain", coin=coin, seed=chk.seed, n=n, kind=kind, profile=profile, blocks=rng.choice([5, 8, 16])))
            # biggest-by-size transaction on a CompactSize boundary
            for j, B in enumerate([252, 253, 254, 0xFFFE, 0xFFFF, 0x10000] if chk.thorough or rep else [253, 0xFFFF, 0x10000]):
                for dim in (["spk", "sig", "nout", "nin"] if chk.thorough else [["spk", "nin"], ["sig", "nout"], ["spk", "sig"]][(j + rep) % 3]):
                    n += 1
                    specs.append(dict(case="chain", coin=COIN_NAMES[n % 8], seed=chk.seed, n=n, kind="size-boundary", profile=profile, blocks=4, boundary=B, dim=dim,
                                      delta=rng.choice([-2, -1, 1, 2]), first=rng.choice(["x", "y"]), segwit=(n % 3 == 0)))
            # halving boundaries
            for k in ([1, 2, 3, 10, 32, 33, 63, 64, 65, 100] if chk.thorough else [1, 33, 63, 64, 70]):
                n += 1
                specs.append(dict(case="chain", coin=COIN_NAMES[n % 8], seed=chk.seed, n=n, kind="plain", profile=profile, blocks=6, base=210000 * k - 3))
    for profile in ("release", "debug"):
        for part in range(10 if chk.thorough else 2):
            specs.append(dict(case="mean", seed=chk.seed, part=part, n=5000 if chk.thorough else 1500, profile=profile))
    return specs


def _dispatch(spec):
    from .. import longrun
    return longrun.long_case(spec) if spec.get("case") == "long" else dispatch(spec)


def main():
    chk = core.Check("C15")
    core.build("release")
    core.build("debug")
    core.ldbtool()
    specs = plan(chk)
    for sp in specs:
        sp["work"] = chk.workdir
    from ..chain import COIN_NAMES
    specs.insert(0, dict(case="long", callback="simplestats", coin=COIN_NAMES[(chk.seed + 3) % 8], seed=chk.seed, n=0, blocks=(140000 if chk.thorough else 70000), verify=False, work=chk.workdir))
    for res in core.parallel(_dispatch, specs):
        chk.absorb(res)
    chk.finish(RULE, floor={"runs:release": 40, "runs:debug": 40, "chains_with_gap_sum_above_2^32": 4, "mean_multisets_sum_above_2^32": 500},
               assumptions=["no block has timestamp 0 (the code uses 0 as 'no previous block'); value sums stay below 2^64",
                            "floats are compared against the exact rational rounded to the printed precision, accepting the neighbouring last digit",
                            "only scripts with a pinned type are used (C05/C06 own the classification)"])


def replay(spec):
    from .. import longrun
    core.replay_case("C15", {"chain": case, "mean": mean_case, "long": longrun.long_case}, spec)
