"""Shared machinery of the script-level checks (C05, C06, C14, C16): work units -> H4 verdict stream -> reference."""
import os
import random

from .. import core, gen, harness, datadir, model, oracles, scriptgen as sg, script_ref as sr
from ..chain import COINS, Tx, TxIn, TxOut
from ..core import viol


def gen_unit(unit):
    """Deterministically regenerates the scripts of a work unit: list of (family, script)."""
    rng = random.Random("unit|%s|%s|%s" % (unit["family"], unit["seed"], unit.get("part", 0)))
    f, n = unit["family"], unit.get("n", 0)
    if f == "templates":
        g = sg.fam_templates(rng, n)
    elif f == "mutations":
        g = sg.fam_mutations(rng, full=unit.get("full", False), stride=unit.get("stride", 1))
    elif f == "leading":
        g = sg.fam_leading(rng)
    elif f == "witness":
        g = sg.fam_witness(rng)
    elif f == "multisig":
        g = sg.fam_multisig(rng)
    elif f == "random_tokens":
        g = sg.fam_random_tokens(rng, n)
    elif f == "random_bytes":
        g = sg.fam_random_bytes(rng, n, unit.get("maxlen", 10000))
    elif f == "fork_templates":
        g = sg.fam_fork_templates(rng, big=unit.get("big", False))
    elif f == "hostile":
        g = sg.fam_hostile(rng, big=unit.get("big", False))
    elif f == "recur_far":
        g = sg.fam_recur_far(rng, pool=unit.get("pool", 70000), fork=not COINS[unit["coin"]].bitcoin_rules)
    elif f == "explicit":
        g = [(unit.get("label", "explicit"), bytes.fromhex(h)) for h in unit["scripts"]]
    else:
        raise KeyError(f)
    out = list(g)
    if unit.get("slice"):
        a, b = unit["slice"]
        out = out[a::b]
    return out


def judge(script, coin, res, totality_only=False):
    """res = (pattern, address, payload) from H4. Returns (sig, detail) or None."""
    pat, addr, payload = res
    if pat == "PANIC":
        return "panic", "evaluation panicked: %s" % addr
    if pat.startswith("Error"):
        return "error-pattern", "pattern %s" % pat
    if totality_only:
        return None
    v = sr.classify(script, coin)
    if pat not in v.types:
        return "type", "type %s, reference allows %s" % (pat, sorted(v.types))
    if addr != v.address:
        if v.address is None:
            return "address-unexpected", "address %s reported where none is allowed (type %s)" % (addr, pat)
        if addr is None:
            return "address-missing", "no address, reference requires %s (type %s)" % (v.address, pat)
        return "address-wrong", "address %s, reference %s (type %s)" % (addr, v.address, pat)
    if pat == "OpReturn" and v.payload is not sr.ANY:
        txt = sr.opreturn_text(script, coin) or ""
        if payload != txt.encode("utf-8"):
            return "payload", "OP_RETURN payload %r, reference %r" % (payload[:60], txt[:60])
    if addr:
        why = sr.check_address(addr, script, coin)
        if why:
            return "address-decoder", "address %s fails the independent decoder: %s" % (addr, why)
    return None


def unit_case(unit):
    """Worker: one unit on one coin and profile."""
    coin = COINS[unit["coin"]]
    binary = core.build(unit.get("profile", "release"))
    scripts = gen_unit(unit)
    res = core.eval_scripts(binary, [(coin.version_byte, s) for _, s in scripts], jobs=1, chunk=(10**9 if unit.get("one_process") else 20000))
    v, shapes, counters = [], set(), {}
    pid = unit.get("pid", "")
    for (fam, s), r in zip(scripts, res):
        bad = judge(s, coin, r, unit.get("totality_only", False))
        famkey = ":".join(fam.split(":")[:2])
        shapes.add("%s|%s|%s|%s" % (famkey, "btc" if coin.bitcoin_rules else "fork", r[0], "addr" if r[1] else "-"))
        if bad:
            if len(v) < 8:
                v.append(viol("%s:%s" % (bad[0], famkey.split(":")[0]), "%s on %s (%s build): script %s%s — %s" % (
                    fam, coin.name, unit.get("profile", "release"), s[:80].hex(), "..." if len(s) > 80 else "", bad[1])))
            counters["disagreements"] = counters.get("disagreements", 0) + 1
        counters["scripts:" + unit.get("profile", "release")] = counters.get("scripts:" + unit.get("profile", "release"), 0) + 1
        if r[1]:
            counters["addresses_decoded"] = counters.get("addresses_decoded", 0) + 1
    out = {"evaluations": len(scripts), "violations": v, "shapes": sorted(shapes), "counters": counters}
    if v and unit.get("one_process"):
        out["spec"] = {k: val for k, val in unit.items() if k != "work"}     # the verdict depends on the whole history: replay all of it
    elif v:
        # replay spec: just the failing scripts
        bads = [s.hex() for (fam, s), r in zip(scripts, res) if judge(s, coin, r, unit.get("totality_only", False))][:20]
        out["spec"] = {"case": "unit", "family": "explicit", "scripts": bads, "coin": coin.name, "profile": unit.get("profile", "release"),
                       "seed": 0, "totality_only": unit.get("totality_only", False)}
    elif scripts:
        i = len(scripts) // 2
        out["sample"] = {"coin": coin.name, "family": scripts[i][0], "script": scripts[i][1][:60].hex(), "verdict": list(res[i][:2])}
    return out


def embed_chain(rng, coin, scripts, outs_per_tx=20, txs_per_block=3, coinbase_share=0.0):
    """Chain whose outputs carry the given scripts (plus a pinned-type coinbase per block); a share of the scripts goes into
    additional outputs of the coinbase transactions (miners put commitments and messages there)."""
    cb = gen.ChainBuilder(rng, coin, genesis=False)
    it = iter(scripts)
    done = False
    while not done:
        txs = []
        cbo = None
        if coinbase_share and rng.random() < coinbase_share * 2:
            cbo = [cb.out(rng.choice(["p2pkh", "p2pk65", "p2sh"]), 50 * 10**8 + rng.randint(0, 10**6))]
            for _ in range(rng.randint(1, 3)):
                s = next(it, None)
                if s is None:
                    done = True
                    break
                cbo.insert(rng.randint(0, len(cbo)), TxOut(rng.choice([0, 0, rng.randint(0, 10**9)]), s))
        for _ in range(txs_per_block):
            outs = []
            for _ in range(outs_per_tx):
                s = next(it, None)
                if s is None:
                    done = True
                    break
                outs.append(TxOut(rng.randint(0, 10**9), s))
            if outs:
                txs.append(cb.spend_tx(1, outs=outs))
        cb.add_block(txs=txs, coinbase_outs=cbo)
    return cb.chain()


def blackbox_case(spec):
    """Scripts embedded in a chain, observed through csvdump (address column), unspentcsvdump, simplestats
    (type table) and opreturn — no hook involved."""
    coin = spec["coin"]
    rng = random.Random("bb|%s|%s" % (spec["seed"], coin))
    units = spec["units"]
    scripts = []
    for u in units:
        u = dict(u, coin=coin)
        ss = [s for _, s in gen_unit(u) if len(s) < 3000]
        rng.shuffle(ss)
        scripts.extend(ss[:spec.get("per_unit", 150)])
    chain = embed_chain(rng, coin, scripts)
    work = harness.fresh(os.path.join(spec["work"], "bb%s" % spec["n"]))
    d = os.path.join(work, "d")
    datadir.write_datadir(d, COINS[coin], harness.simple_layout(chain))
    binary = core.build(spec.get("profile", "release"))
    v, counters = [], {"blackbox_runs": 0, "blackbox_scripts": len(scripts)}
    for cbname in spec.get("callbacks", ["csvdump", "unspentcsvdump", "simplestats", "opreturn"]):
        dump = harness.fresh(os.path.join(work, "o"))
        p = harness.run_cb(binary, d, coin, cbname, dump)
        counters["blackbox_runs"] += 1
        if cbname == "csvdump":
            bad = oracles.check_csvdump(p, dump, chain, coin)
        elif cbname == "unspentcsvdump":
            bad = oracles.check_unspent(p, dump, chain, coin)
        elif cbname == "simplestats":
            bad = oracles.check_stats(p, chain, coin)
        else:
            bad = oracles.check_opreturn(p, chain, coin)
        v.extend(viol("blackbox:" + sig, "%s [coin=%s, %d embedded scripts]" % (det, coin, len(scripts))) for sig, det in bad)
    # other spellings of the coin's name on the command line: the tool may refuse them (it does today) - but if it accepts one, it has to
    # parse the coin that was named, not some other
    for sp in (coin.capitalize(), coin.upper(), coin[:1].upper() + coin[1:4] + coin[4:5].upper() + coin[5:]):
        if sp == coin:
            continue
        dump = harness.fresh(os.path.join(work, "o"))
        p = harness.run_cb(binary, d, coin, "csvdump", dump, coin_spelling=sp)
        counters["blackbox_runs"] += 1
        if p.rc == 0:
            counters["other_spellings_accepted"] = counters.get("other_spellings_accepted", 0) + 1
            bad = oracles.check_csvdump(p, dump, chain, coin)
            v.extend(viol("blackbox:spelling:" + sig, "%s [-c %s accepted, coin=%s]" % (det, sp, coin)) for sig, det in bad[:1])
        else:
            counters["other_spellings_refused"] = counters.get("other_spellings_refused", 0) + 1
    import shutil
    shutil.rmtree(work, ignore_errors=True)
    return {"evaluations": counters["blackbox_runs"], "violations": v, "counters": counters,
            "shapes": ["blackbox|%s|%s" % (coin, cb) for cb in spec.get("callbacks", ["csvdump", "unspentcsvdump", "simplestats", "opreturn"])]}


def dispatch(spec):
    return blackbox_case(spec) if spec.get("case") == "blackbox" else unit_case(spec)


def std_units(coins, thorough, seed, profile="release", scale=1.0):
    """The C05 family plan for the given coins."""
    units = []
    for coin in coins:
        def u(family, **kw):
            units.append(dict(case="unit", family=family, coin=coin, seed=seed, profile=profile, **kw))
        u("templates", n=int((1000 if thorough else 150) * scale) or 5)
        if thorough and profile == "release":
            for part in range(4):
                u("mutations", full=True, slice=[part, 4])
        else:
            u("mutations", full=False)
        u("leading")
        u("witness")
        u("multisig")
        nt = int((3000000 if thorough else 60000) * scale)
        for part in range(max(1, nt // 15000)):
            u("random_tokens", n=min(nt, 15000), part=part)
        nb = int((450000 if thorough else 12000) * scale)
        for part in range(max(1, nb // 3000)):
            u("random_bytes", n=min(nb, 3000), part=part, maxlen=10000)
    return units
