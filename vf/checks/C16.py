"""C16 — opreturn prints exactly the non-empty UTF-8 payloads, in chain order."""
import os
import random
import shutil

from .. import core, gen, harness, datadir, model, oracles, script_ref as sr
from ..chain import COINS, COIN_NAMES, TxOut
from ..core import viol
from ..gen import push, rbytes
from . import scriptcommon as sc

RULE = ("chains whose outputs mix OP_RETURN scripts (payload lengths 0..300 exhaustively, then up to 70,000; every push form that can "
        "carry the length: direct, PUSHDATA1/2/4; ASCII, multi-byte UTF-8, invalid UTF-8, embedded newlines/CR, empty) with every other "
        "script type, several per tx and block, x 8 coins x ranges; the real `opreturn` callback is run and stdout minus log lines is "
        "compared, as exact text and order, with the model (Bitcoin/testnet3: only valid UTF-8; fork coins: lossy). Plus the payload "
        "families through the script-eval tool mode. One long run (more than 2^16 blocks in one process, three blk files) is compared with the model as well: thresholds of anything a run accumulates. Half of the chains end with identical transactions (coinbases with an OP_RETURN output among them) in consecutive and distant blocks. distinct = (coin rules, push form, length class, payload class, printed?) signatures")

UTF8_SAMPLES = ["héllo wörld", "日本語のテキスト", "emoji \U0001F600\U0001F680", "Ελληνικά", "mixed ascii + ü + 漢", " nbsp", "tab\there",
                # valid UTF-8 that looks like trouble: the replacement character itself (already-mangled text), its neighbours, noncharacters,
                # the byte order mark, NUL and other C0 / C1 controls, the first and last scalar values of each encoded length, bidi controls
                "Z\ufffdrich", "\ufffd", "\ufffc\ufffd", "\ufffe\uffff", "\ufeffbom first", "nul\x00inside", "\x7f\x80\x9f", "\u07ff\u0800", "\ud7ff\ue000",
                "\U00010000\U0010ffff", "\u202eoverride\u202c", "\u2028line\u2029para", "e\u0301 combining"]
BAD_UTF8 = [b"\xff\xfe", b"\xc3\x28", b"abc\xe2\x82", b"\xf0\x9f\x92", b"\xed\xa0\x80", b"\x80abc", b"abc\xffdef", b"\xc0\xaf", b"\xf5\x80\x80\x80"]


def payload(rng, cls, n):
    if cls == "ascii":
        return bytes(rng.choice(b"abcdefghijklmnopqrstuvwxyzABCDEFGHIJKLMNOPQRSTUVWXYZ0123456789 .,:;-_/") for _ in range(n))
    if cls == "utf8":
        out = b""
        while len(out) < n:
            out += rng.choice(UTF8_SAMPLES).encode()
        # cut on a character boundary
        out = out[:n]
        while out:
            try:
                out.decode()
                break
            except UnicodeDecodeError:
                out = out[:-1]
        return out or b"x"
    if cls == "newline":
        body = payload(rng, "ascii", max(1, n))
        i = rng.randrange(len(body))
        return body[:i] + rng.choice([b"\n", b"\r", b"\r\n", b"\n\n"]) + body[i:]
    if cls == "badutf8":
        b = rng.choice(BAD_UTF8)
        pad = payload(rng, "ascii", max(0, n - len(b)))
        i = rng.randrange(len(pad) + 1)
        return pad[:i] + b + pad[i:]
    if cls == "random":
        return rbytes(rng, n)
    if cls == "wellknown":
        # payloads that start like well-known protocol markers (they are payloads like any other)
        head = rng.choice([bytes.fromhex("aa21a9ed"), b"omni", b"RSKBLOCK:", b"id;", b"CC\x02", b"EW ", b"\x00\x00\x00\x00", b"ASCRIBESPOOL", bytes.fromhex("6a24aa21a9ed")])
        if head == bytes.fromhex("aa21a9ed") and rng.random() < 0.7:
            return head + rbytes(rng, 32)          # BIP141 witness commitment: exactly 36 bytes
        return (head + rbytes(rng, max(0, n - len(head))))[:max(n, 1)]
    if cls == "control":
        return bytes(rng.choice([0, 1, 7, 8, 27, 127]) for _ in range(n))
    return b""


def forms_for(n):
    return [f for f, lim in (("d", 75), ("p1", 255), ("p2", 65535), ("p4", 1 << 32)) if n <= lim]


def safe(p):
    """payload must not produce a stdout line that looks like a log line"""
    txt = p.decode("utf-8", errors="replace")
    return not any(model.LOG_RE.match(ln) for ln in txt.replace("\r", "\n").split("\n"))


def build_outputs(spec):
    """list of scripts for the chain of this case"""
    rng = random.Random("C16|%s|%s" % (spec["seed"], spec["n"]))
    coin = spec["coin"]
    scripts = []
    lengths = spec["lengths"]
    for n in lengths:
        for form in forms_for(n):
            cls = rng.choice(spec["classes"]) if n else "empty"
            p = payload(rng, cls, n) if n else b""
            if not safe(p):
                p = payload(rng, "ascii", n)
            if len(p) > {"d": 75, "p1": 255, "p2": 65535, "p4": 1 << 32}[form]:
                continue
            scripts.append(("opreturn:%s:%s" % (form, cls), b"\x6a" + push(p, form)))
            if rng.random() < 0.5:
                scripts.append(("other", gen.std_script(rng, coin, rng.choice(["p2pkh", "p2sh", "nonstd", "p2pk33"] + (["p2wpkh", "unspendable", "multisig"] if COINS[coin].bitcoin_rules else ["multisig23"])))))
    if spec.get("unpinned"):
        # OP_RETURN scripts outside "exactly one push": statement does not pin what is printed
        for s in (b"\x6a", b"\x6a" + push(b"abc") + push(b"def"), b"\x6a\x51", b"\x6ahello", b"\x6a" + push(b"x") + b"\x61"):
            scripts.append(("opreturn:unpinned", s))
            scripts.append(("other", gen.std_script(rng, coin, "p2pkh")))
    rng.shuffle(scripts)
    return scripts


def case(spec):
    coin = spec["coin"]
    rng = random.Random("C16c|%s|%s" % (spec["seed"], spec["n"]))
    scripts = build_outputs(spec)
    chain = sc.embed_chain(rng, coin, [s for _, s in scripts], outs_per_tx=rng.choice([1, 3, 7]), txs_per_block=rng.choice([1, 2, 5]), coinbase_share=0.3)
    if spec["n"] % 2 == 0:
        # identical transactions (coinbases with an OP_RETURN output among them) in different blocks: every occurrence prints its own line
        chain = gen.add_duplicate_txs(rng, chain, coin)
    work = harness.fresh(os.path.join(spec["work"], "c%d" % spec["n"]))
    d = os.path.join(work, "d")
    datadir.write_datadir(d, COINS[coin], harness.simple_layout(chain))
    binary = core.build(spec.get("profile", "release"))
    tip = chain[-1][0]
    ranges = [(None, None)]
    if tip >= 2:
        ranges.append((rng.randint(1, tip), None))
        ranges.append((None, rng.randint(1, tip)))
    v, counters, shapes = [], {"runs": 0, "lines_expected": 0, "pinned_outputs": 0}, set()
    for s, e in ranges[:spec.get("nranges", 3)]:
        p = harness.run_cb(binary, d, coin, "opreturn", None, s, e)
        counters["runs"] += 1
        bad = oracles.check_opreturn(p, chain, coin, s or 0, e)
        exp = model.opreturn_expected(chain, coin, s or 0, e)
        counters["lines_expected"] += len(exp)
        v.extend(viol(sig, "%s [coin=%s range=%s..%s]" % (det, coin, s, e)) for sig, det in bad)
    for fam, sbytes in scripts:
        if fam.startswith("opreturn"):
            txt = sr.opreturn_text(sbytes, coin)
            n = len(sbytes)
            lc = "0" if n <= 2 else ("<=75" if n <= 77 else ("<=255" if n <= 258 else ("<=65535" if n < 65540 else ">65535")))
            shapes.add("%s|%s|%s|%s" % ("btc" if COINS[coin].bitcoin_rules else "fork", fam, lc,
                                        "any" if txt is sr.ANY else ("printed" if txt is not None else "silent")))
            if txt is not sr.ANY:
                counters["pinned_outputs"] += 1
    shutil.rmtree(work, ignore_errors=True)
    return {"evaluations": counters["runs"], "violations": v, "counters": counters, "shapes": sorted(shapes),
            "sample": {"coin": coin, "blocks": len(chain), "outputs": len(scripts), "first_script": scripts[0][1][:40].hex()}}


def eval_unit(unit):
    """payload families through the script-eval tool mode (volume)"""
    rng = random.Random("C16u|%s|%s" % (unit["seed"], unit["part"]))
    scripts = []
    for _ in range(unit["n"]):
        n = rng.choice([0, 1, 2, 20, 40, 74, 75, 76, 77, 79, 80, 81, 83, 200, 254, 255, 256, 257, 520, rng.randint(0, 2000)])
        cls = rng.choice(["ascii", "utf8", "newline", "badutf8", "random", "control"])
        p = payload(rng, cls, n) if n else b""
        fs = [f for f in forms_for(len(p))]
        scripts.append(b"\x6a" + push(p, rng.choice(fs)))
    u = dict(unit, family="explicit", scripts=[s.hex() for s in scripts], label="opreturn:eval")
    return sc.unit_case(u)


def dispatch(spec):
    return eval_unit(spec) if spec["case"] == "eval" else case(spec)


def plan(chk):
    specs = []
    n = 0
    classes = ["ascii", "utf8", "newline", "badutf8", "random", "control", "wellknown"]
    all_lengths = list(range(0, 301))
    big = [520, 1000, 4096, 65535, 65536, 70000]
    coins = COIN_NAMES
    per_coin = 4 if chk.thorough else 1
    for ci, coin in enumerate(coins):
        for rep in range(per_coin):
            n += 1
            # every length 0..300 appears for every coin; spread over a few chains
            for part in range(3):
                n += 1
                specs.append({"case": "chain", "coin": coin, "seed": chk.seed + rep, "n": n, "classes": classes,
                              "lengths": all_lengths[part::3], "unpinned": part == 0})
            n += 1
            specs.append({"case": "chain", "coin": coin, "seed": chk.seed + rep, "n": n, "classes": ["ascii", "utf8", "badutf8"],
                          "lengths": big if (chk.thorough or ci % 2 == 0) else big[:3], "nranges": 1})
    for coin in coins:
        # protocol markers (BIP141 witness commitment, ...) in coinbase and ordinary outputs: payloads like any other
        n += 1
        specs.append({"case": "chain", "coin": coin, "seed": chk.seed, "n": n, "classes": ["wellknown"], "lengths": [36] * 14 + [4, 9, 38, 40, 80, 100], "nranges": 2})
    n += 1
    specs.append({"case": "chain", "coin": "bitcoin", "seed": chk.seed, "n": n, "classes": classes, "lengths": list(range(0, 120)), "profile": "debug"})
    n += 1
    specs.append({"case": "chain", "coin": "litecoin", "seed": chk.seed, "n": n, "classes": classes, "lengths": list(range(0, 120)), "profile": "debug"})
    for coin in ("bitcoin", "testnet3", "litecoin", "dogecoin", "namecoin"):
        for part in range(8 if chk.thorough else 2):
            specs.append({"case": "eval", "coin": coin, "seed": chk.seed, "part": part, "n": 20000 if chk.thorough else 5000, "profile": "release"})
    return specs


def _dispatch(spec):
    from .. import longrun
    return longrun.long_case(spec) if spec.get("case") == "long" else dispatch(spec)


def main():
    chk = core.Check("C16")
    core.build("release")
    core.build("debug")
    core.ldbtool()
    specs = plan(chk)
    for sp in specs:
        sp["work"] = chk.workdir
    from ..chain import COIN_NAMES
    specs.insert(0, dict(case="long", callback="opreturn", coin=COIN_NAMES[(chk.seed + 4) % 8], seed=chk.seed, n=0, blocks=(140000 if chk.thorough else 70000), verify=False, work=chk.workdir))
    for res in core.parallel(_dispatch, specs):
        chk.absorb(res)
    chk.finish(RULE, floor={"runs": 40, "lines_expected": 2000, "pinned_outputs": 2000, "scripts:release": 10000},
               assumptions=["OP_RETURN scripts that are not 'OP_RETURN + exactly one push' are unconstrained as to what is printed",
                            "generated payloads never contain a line that looks like a log line ([HH:MM:SS] LEVEL - ...)",
                            "U+FFFD replacement granularity: Python's and Rust's lossy decoders agree (probed on 200k adversarial strings)"])


def replay(spec):
    from .. import longrun
    core.replay_case("C16", {"chain": case, "eval": eval_unit, "unit": sc.unit_case, "long": longrun.long_case}, spec)
