"""C13 — output depends only on data directory and options, never on scheduling or reruns."""
import hashlib
import os
import random
import re
import shutil

from .. import core, harness, datadir, model, oracles, gen, strace, histories
from ..chain import COINS, COIN_NAMES, Tx, TxIn, TxOut
from ..core import viol, Inconclusive
from ..gen import rbytes

RULE = ("(1) schedules: the same data directory is run with RAYON_NUM_THREADS in {1,2,3,8,16,64} x delay-injection seeds (guarded jitter "
        "inside the two parallel closures) x CPU contention (taskset to 2 cores with 64 threads) on blocks with 1..600 txs and 1..300 "
        "outputs; csvdump bytes, simplestats figures, opreturn lines and unspent/balances row sets must be identical across runs and "
        "equal to the model. The H3 log proves the work was really split (worker ids per block) and counts distinct thread->task maps as "
        "distinct schedules; completion-order inversions are counted. (2) histories: sequences of runs sharing one dump folder (pre-"
        "seeded with stale *.tmp files, earlier results under the same and other names) and one data directory (index reopened up to 10 "
        "times): results unchanged, SHA-256 of blk*.dat/xor.dat and the key/value dump of the index identical before/after, strace spec "
        "'no open-for-write/unlink/rename/truncate on blk*.dat or xor.dat'. (3) thorough: ThreadSanitizer build over the parallel "
        "workload and a build without the verif feature compared with the hooked build on all five callbacks. (4) suspended runs: the process is stopped (SIGSTOP) for more than 10 s while it delivers blocks, so the time-driven progress report of the driver runs; results must equal the undisturbed run and the model. Schedule chains contain twins of the record-setting transaction (ties for biggest value / size). (5) concurrent instances: instance B (another data directory and dump folder, same cwd / TMPDIR / HOME) runs completely while instance A is stopped in mid-run; both results must equal their models. Environment variants include stdout on a (raw) pseudo terminal; recurring payloads contain control characters. distinct = distinct schedules (thread->task maps) + (history kind, callback) signatures")

THREADS = [1, 2, 3, 8, 16, 64]


def sched_chain(rng, coin, shape):
    """version = height, locktime = tx index, output value = globally unique id: identifies every parallel task in the H3 log"""
    cb = gen.ChainBuilder(rng, coin)
    uid = [1]
    kinds = gen.STD_KINDS_BTC if COINS[coin].bitcoin_rules else gen.STD_KINDS_FORK
    # a few scripts recur many times, interleaved with unique ones: state shared between evaluation tasks
    # (memo / cache keyed too coarsely) only shows when the same script is evaluated by several workers
    hot = [gen.std_script(rng, coin, k) for k in (kinds[:6] if len(kinds) >= 6 else kinds)]
    # scripts for which the evaluator logs a warning (v0 witness programs of an illegal length) and OP_RETURN outputs:
    # log records written from the worker threads must not get mixed into what the callbacks print
    hot.append(b"\x00\x03\xaa\xbb\xcc")
    hot.append(b"\x6a" + gen.push(b"recurring opreturn payload"))
    hot.append(b"\x6a" + gen.push(b"ctl \x1b[31mred\x1b[0m \x07bell \ttab \x00nul \x7f"))      # valid UTF-8 with control characters
    hot.append(b"\x00\x10" + rbytes(rng, 16))
    # the same 20 bytes / key in different roles (P2PKH, P2SH, P2PK, ...): per-worker state keyed by the payload alone would make the
    # address depend on which role a worker happened to see first
    from .. import scriptgen
    hot.extend(list(scriptgen.same_payload_roles(rng))[:18])
    for h, (ntx, nout) in enumerate(shape):
        txs = []
        for ti in range(ntx):
            outs = []
            for _ in range(nout if ti % 3 == 0 else max(1, nout // 10)):
                outs.append(TxOut(uid[0], rng.choice(hot) if rng.random() < 0.35 else gen.std_script(rng, coin, rng.choice(kinds))))
                uid[0] += 1
            t = Tx(h, [TxIn(rbytes(rng, 32), 0, b"", 0xFFFFFFFF)], outs, ti + 1)
            txs.append(t)
        if ntx >= 3:
            # ties for both records of the report (biggest transaction by value and by size): a champion that beats everything
            # before it and twins of it - next to it and far from it - that differ in the spent outpoint only. "First one on ties"
            # must not depend on where a parallel reduction happens to cut the block.
            k = rng.randrange(len(txs))
            champ = txs[k]
            champ.outs = list(champ.outs) + [TxOut(10**15 + h * 10**9, b"\x6a" + gen.push(b"champion " * 25))]
            for pos in sorted({min(len(txs), k + 1), rng.randrange(k + 1, len(txs) + 1), len(txs)}, reverse=True):
                txs.insert(pos, Tx(h, [TxIn(rbytes(rng, 32), 0, b"", 0xFFFFFFFF)], list(champ.outs), 0))
            for ti, t in enumerate(txs):
                t.locktime = ti + 1
                t.invalidate()
        blk = cb.add_block(txs=txs, coinbase_outs=[TxOut(10**12 + h, gen.std_script(rng, coin, "p2pkh"))])
        blk.txs[0].version = h
        blk.txs[0].locktime = 0
        blk.txs[0].invalidate()
    # versions were patched after the blocks were linked: relink
    from ..chain import link
    blocks = [b for _, b in cb.blocks]
    link(blocks)
    out = [(h, b) for (h, _), b in zip(cb.blocks, blocks)]
    # header times as real chains have them (backwards steps, future-dated relative to the moment of the run, 32-bit edges): a result
    # must not depend on WHEN the tool runs
    gen.vary_times(rng, out)
    return out


def digest_outputs(cbname, p, dump):
    if cbname == "csvdump":
        got = harness.read_dump(dump)
        return hashlib.sha256("".join(n + "\0" + got[n] for n in sorted(got)).encode()).hexdigest()
    if cbname in ("unspentcsvdump", "balances"):
        got = harness.read_dump(dump)
        return hashlib.sha256("".join(n + "\0" + "\n".join(sorted(got[n].split("\n"))) for n in sorted(got)).encode()).hexdigest()
    if cbname == "simplestats":
        st = model.parse_stats(p.out)
        return hashlib.sha256(repr(sorted((k, sorted(v.items()) if isinstance(v, dict) else v) for k, v in st.items())).encode()).hexdigest() if st else None
    return hashlib.sha256(model.canon_opreturn("\n".join(model.strip_log(p.out))).encode()).hexdigest()


def model_check(cbname, p, dump, chain, coin):
    if cbname == "csvdump":
        return oracles.check_csvdump(p, dump, chain, coin)
    if cbname == "unspentcsvdump":
        return oracles.check_unspent(p, dump, chain, coin)
    if cbname == "balances":
        return oracles.check_balances(p, dump, chain, coin)
    if cbname == "simplestats":
        return oracles.check_stats(p, chain, coin)
    return oracles.check_opreturn(p, chain, coin)


def schedule_stats(events):
    """From H3 events: per block the set of worker ids, the thread->task map signature, completion-order inversions"""
    by_block = {}
    for e in events:
        if e["ev"] == "eval_tx":
            by_block.setdefault(e["version"], []).append((e["seq"], e["thread"], e["locktime"]))
    split_blocks = 0
    inv = 0
    sig = hashlib.sha256()
    for h in sorted(by_block):
        lst = sorted(by_block[h])
        threads = {t for _, t, _ in lst}
        if len(threads) >= 2:
            split_blocks += 1
        order = [lt for _, _, lt in lst]
        inv += sum(1 for a, b in zip(order, order[1:]) if b < a)
        sig.update(repr(sorted((lt, t) for _, t, lt in lst)).encode())
    out_threads = {e["thread"] for e in events if e["ev"] == "eval_out"}
    return split_blocks, inv, sig.hexdigest(), len(out_threads)


def sched_case(spec):
    coin = spec["coin"]
    rng = random.Random("C13|%s|%s" % (spec["seed"], spec["n"]))
    chain = sched_chain(rng, coin, spec["shape"])
    work = harness.fresh(os.path.join(spec["work"], "c%d" % spec["n"]))
    d = os.path.join(work, "d")
    from .. import layouts
    kw, _desc, _ = layouts.make_layout(rng, chain, coin, assign="round_robin", nfiles=2)
    # two index records for one height (the loser sorts before the active block): which one wins must not depend on scheduling
    ncomp = layouts.add_harmless_competitors(rng, chain, coin, kw, count=3)
    datadir.write_datadir(d, COINS[coin], **kw)
    binary = core.build("release")
    v, counters, shapes = [], {"runs": 0, "max_workers_in_one_block_run": 0, "losing_index_records": ncomp}, set()
    for cbname in spec["callbacks"]:
        digests = {}
        for (threads, jitter, pin) in spec["configs"]:
            dump = harness.fresh(os.path.join(work, "o"))
            log = os.path.join(work, "ev.jsonl")
            env = {"RAYON_NUM_THREADS": str(threads)}
            if jitter is not None:
                env["RBP_VERIF_JITTER"] = str(jitter)
            argv = harness.cli(binary, d, coin, cbname, dump)
            if pin:
                argv = ["taskset", "-c", "0,1"] + argv
            if os.path.exists(log):
                os.unlink(log)
            env["RBP_VERIF_LOG"] = log
            p = core.run(argv, env=env, timeout=600)
            if p.timed_out:
                raise Inconclusive("watchdog fired (threads=%d)" % threads)
            if pin and p.rc != 0 and "taskset" in p.err:
                # CPU pinning not permitted here: a harness limitation, not a verdict on the program
                counters["pinning_unavailable"] = counters.get("pinning_unavailable", 0) + 1
                continue
            counters["runs"] += 1
            what = "%s threads=%d jitter=%s pinned=%s" % (cbname, threads, jitter, pin)
            bad = model_check(cbname, p, dump, chain, coin)
            v.extend(viol("schedule:" + sig, "%s [%s coin=%s]" % (det, what, coin)) for sig, det in bad)
            digests[(threads, jitter, pin)] = digest_outputs(cbname, p, dump) if p.rc == 0 else None
            ev = harness.read_events(log)
            split, inv, sig, nout_threads = schedule_stats(ev)
            counters["blocks_split_across_workers"] = counters.get("blocks_split_across_workers", 0) + split
            counters["completion_order_inversions"] = counters.get("completion_order_inversions", 0) + inv
            counters["h3_events"] = counters.get("h3_events", 0) + sum(1 for e in ev if e["ev"].startswith("eval"))
            counters["max_workers_in_one_block_run"] = max(counters["max_workers_in_one_block_run"], nout_threads)
            if threads > 1 and split:
                shapes.add("schedule|" + sig[:24])
            if threads > 1:
                counters["parallel_runs"] = counters.get("parallel_runs", 0) + 1
                if split:
                    counters["parallel_runs_with_split_work"] = counters.get("parallel_runs_with_split_work", 0) + 1
        ds = set(digests.values())
        if len(ds) > 1:
            v.append(viol("schedule:runs-differ", "%s: %d different results across %d scheduling configurations %s [coin=%s]" % (
                cbname, len(ds), len(digests), sorted(map(str, digests))[:4], coin)))
        counters["cross_run_comparisons"] = counters.get("cross_run_comparisons", 0) + 1
    shutil.rmtree(work, ignore_errors=True)
    return {"evaluations": counters["runs"], "violations": v, "counters": counters, "shapes": sorted(shapes),
            "sample": {"kind": "schedule", "coin": coin, "shape": spec["shape"][:4], "configs": len(spec["configs"]), "callbacks": spec["callbacks"]}}


def sha_inputs(d):
    out = {}
    for n in sorted(os.listdir(d)):
        p = os.path.join(d, n)
        if os.path.isfile(p) and (n.startswith("blk") or n == "xor.dat"):
            out[n] = (hashlib.sha256(open(p, "rb").read()).hexdigest(), os.path.getsize(p))
    return out


def history_case(spec):
    coin = spec["coin"]
    rng = random.Random("C13h|%s|%s" % (spec["seed"], spec["n"]))
    chain = gen.simple_chain(rng, coin, spec.get("blocks", 10), max_tx=4)
    work = harness.fresh(os.path.join(spec["work"], "c%d" % spec["n"]))
    d = os.path.join(work, "d")
    from .. import layouts
    kw, desc, _ = layouts.make_layout(rng, chain, coin, assign="contiguous", nfiles=3, index_style={"write_buffer": 4096, "sessions": 2})
    datadir.write_datadir(d, COINS[coin], xor_key=(rbytes(rng, 8) if spec.get("xor") else None), **kw)
    binary = core.build("release")
    dump = harness.fresh(os.path.join(work, "o"))
    v, counters, shapes = [], {"runs": 0}, set()
    before_files = sha_inputs(d)
    before_index = datadir.dump_index(os.path.join(d, "index"), work)
    tip = chain[-1][0]
    # pre-seed the dump folder: stale tmp files (longer than the real output), earlier result with the same name, other names
    junk = "JUNK;" * 100000
    for n in ("blocks.csv.tmp", "transactions.csv.tmp", "tx_in.csv.tmp", "tx_out.csv.tmp", "unspent.csv.tmp", "balances.csv.tmp"):
        open(os.path.join(dump, n), "w").write(junk)
    for n in ("blocks-0-%d.csv" % tip, "tx_out-0-%d.csv" % tip, "unspent-0-%d.csv" % tip, "balances-0-%d.csv" % tip):
        open(os.path.join(dump, n), "w").write("stale;earlier;result\n" * 50000)
    open(os.path.join(dump, "blocks-0-999.csv"), "w").write("other range\n")
    open(os.path.join(dump, "unrelated.txt"), "w").write("keep me\n")
    seq = spec["sequence"]
    first = {}
    for i, (cbname, s, e) in enumerate(seq):
        if spec.get("trace") and i == 1:
            tf = os.path.join(work, "trace.log")
            p = strace.traced(harness.cli(binary, d, coin, cbname, dump, s, e), tf)
            counters["traced_runs"] = counters.get("traced_runs", 0) + 1
            for ev in strace.parse(tf):
                call = ev.get("call")
                tgt = None
                if call in ("openat", "open") and ev.get("abspath") and ("O_WRONLY" in ev.get("flags", "") or "O_RDWR" in ev.get("flags", "") or "O_TRUNC" in ev.get("flags", "")):
                    tgt = ev["abspath"]
                elif call in ("unlink", "unlinkat", "truncate") and ev.get("path"):
                    tgt = ev["path"]
                elif call in ("rename", "renameat", "renameat2", "link", "linkat") and ev.get("src"):
                    tgt = ev["src"] if os.path.basename(ev["src"]).startswith(("blk", "xor")) else ev["dst"]
                elif call in ("write", "pwrite64", "ftruncate") and ev.get("fdpath"):
                    tgt = ev["fdpath"]
                if tgt:
                    bn = os.path.basename(tgt)
                    if os.path.dirname(os.path.abspath(tgt)) == os.path.abspath(d) and ((bn.startswith("blk") and bn.endswith(".dat")) or bn == "xor.dat"):
                        v.append(viol("history:input-file-modified", "%s on input file %s during %s" % (call, bn, cbname)))
                counters["trace_events_seen"] = counters.get("trace_events_seen", 0) + 1
        else:
            p = harness.run_cb(binary, d, coin, cbname, dump, s, e)
        counters["runs"] += 1
        # the expected final files of this run must equal the model; unrelated files must survive untouched
        sub = harness.fresh(os.path.join(work, "view"))
        sl = model.in_range(chain, s or 0, e)
        last = sl[-1][0]
        prefix = {"csvdump": ("blocks", "transactions", "tx_in", "tx_out"), "unspentcsvdump": ("unspent",), "balances": ("balances",)}.get(cbname, ())
        for f in prefix:
            n = "%s-%d-%d.csv" % (f, s or 0, last)
            if os.path.exists(os.path.join(dump, n)):
                shutil.copy(os.path.join(dump, n), os.path.join(sub, n))
        S = s or 0
        if cbname == "csvdump":
            bad = oracles.check_csvdump(p, sub, chain, coin, S, e)
        elif cbname == "unspentcsvdump":
            bad = oracles.check_unspent(p, sub, chain, coin, S, e)
        elif cbname == "balances":
            bad = oracles.check_balances(p, sub, chain, coin, S, e)
        elif cbname == "simplestats":
            bad = oracles.check_stats(p, chain, coin, S, e)
        else:
            bad = oracles.check_opreturn(p, chain, coin, S, e)
        v.extend(viol("history:" + sig, "%s [run %d of the sequence: %s %s..%s into a dirty dump folder, index opened %d times before]" % (det, i + 1, cbname, s, e, i))
                 for sig, det in bad)
        leftovers = [n for n in harness.listing(dump) if n.endswith(".tmp") and n.split(".")[0] in prefix]
        if p.rc == 0 and leftovers:
            v.append(viol("history:tmp-left", "tmp files of this callback remain after a successful run: %s" % leftovers))
        key = (cbname, s, e)
        dg = digest_outputs(cbname, p, sub)
        if key in first and first[key] != dg:
            v.append(viol("history:rerun-differs", "run %d (%s %s..%s) differs from the earlier identical run" % (i + 1, cbname, s, e)))
        first.setdefault(key, dg)
        if key in first:
            counters["rerun_comparisons"] = counters.get("rerun_comparisons", 0) + 1
        shapes.add("history|%s|%s|%s" % (cbname, "ranged" if (s or e) else "full", "traced" if spec.get("trace") and i == 1 else "plain"))
        if open(os.path.join(dump, "unrelated.txt")).read() != "keep me\n" or open(os.path.join(dump, "blocks-0-999.csv")).read() != "other range\n":
            v.append(viol("history:unrelated-file-touched", "a file of another name in the dump folder was modified"))
    after_files = sha_inputs(d)
    after_index = datadir.dump_index(os.path.join(d, "index"), work)
    counters["index_reopens"] = len(seq)
    if before_files != after_files:
        v.append(viol("history:blk-modified", "blk*.dat / xor.dat changed after %d runs: %s" % (len(seq), [n for n in before_files if before_files[n] != after_files.get(n)])))
    if before_index != after_index:
        v.append(viol("history:index-content-changed", "key/value content of the block index changed after %d runs (%d -> %d lines)" % (
            len(seq), before_index.count("\n"), after_index.count("\n"))))
    counters["input_integrity_checks"] = 1
    shutil.rmtree(work, ignore_errors=True)
    return {"evaluations": counters["runs"], "violations": v, "counters": counters, "shapes": sorted(shapes),
            "sample": {"kind": "history", "coin": coin, "sequence": seq[:5], "xor": bool(spec.get("xor"))}}


TSAN_RE = re.compile(r"WARNING: ThreadSanitizer: (.*)")


def tsan_case(spec):
    coin = spec["coin"]
    rng = random.Random("C13t|%s|%s" % (spec["seed"], spec["n"]))
    chain = sched_chain(rng, coin, spec["shape"])
    work = harness.fresh(os.path.join(spec["work"], "c%d" % spec["n"]))
    d = os.path.join(work, "d")
    datadir.write_datadir(d, COINS[coin], harness.simple_layout(chain))
    binary = core.build("tsan")
    v, inc, counters = [], [], {"tsan_runs": 0}
    for cbname in spec["callbacks"]:
        dump = harness.fresh(os.path.join(work, "o"))
        p = core.run(harness.cli(binary, d, coin, cbname, dump), env={"RAYON_NUM_THREADS": str(spec["threads"]), "TSAN_OPTIONS": "halt_on_error=0 exitcode=66"}, timeout=1200)
        counters["tsan_runs"] += 1
        reports = p.err.split("==================")
        for rep in reports:
            if "WARNING: ThreadSanitizer" not in rep:
                continue
            counters["tsan_reports"] = counters.get("tsan_reports", 0) + 1
            if "rusty_blockparser" in rep:
                v.append(viol("tsan:report-in-repo-code", "ThreadSanitizer report with a frame in the repository (%s): %s" % (cbname, rep[:1500])))
            else:
                inc.append("ThreadSanitizer report entirely inside dependencies: %s" % (TSAN_RE.search(rep).group(1) if TSAN_RE.search(rep) else rep[:100]))
        if p.rc not in (0, 66):
            inc.append("tsan run exited %s: %s" % (p.rc, p.err[-200:]))
        elif p.rc == 0:
            bad = model_check(cbname, p, dump, chain, coin)
            v.extend(viol("tsan-run:" + sig, det) for sig, det in bad)
    shutil.rmtree(work, ignore_errors=True)
    return {"evaluations": counters["tsan_runs"], "violations": v, "inconclusive": inc, "counters": counters, "shapes": ["tsan|%s|t%d" % (coin, spec["threads"])]}


def nohooks_case(spec):
    """The binary built WITHOUT the verif feature must produce the same results as the hooked build (the hooks only observe)."""
    coin = spec["coin"]
    rng = random.Random("C13n|%s|%s" % (spec["seed"], spec["n"]))
    chain = sched_chain(rng, coin, spec["shape"])
    work = harness.fresh(os.path.join(spec["work"], "c%d" % spec["n"]))
    d = os.path.join(work, "d")
    datadir.write_datadir(d, COINS[coin], harness.simple_layout(chain))
    hooked, plain = core.build("release"), core.build("release-nohooks")
    v, runs = [], 0
    for cbname in ["csvdump", "unspentcsvdump", "balances", "simplestats", "opreturn"]:
        dg = {}
        for name, binary in (("hooks", hooked), ("nohooks", plain)):
            dump = harness.fresh(os.path.join(work, "o"))
            p = harness.run_cb(binary, d, coin, cbname, dump, timeout=600)
            runs += 1
            v.extend(viol("nohooks:%s:%s" % (name, sig), det) for sig, det in model_check(cbname, p, dump, chain, coin))
            dg[name] = digest_outputs(cbname, p, dump) if p.rc == 0 else None
        if dg["hooks"] != dg["nohooks"]:
            v.append(viol("nohooks:differs", "%s: the build without the verif feature produces a different result than the hooked build" % cbname))
    shutil.rmtree(work, ignore_errors=True)
    return {"evaluations": runs, "violations": v, "counters": {"runs": runs, "hooks_vs_nohooks_comparisons": 5}, "shapes": ["nohooks|%s" % coin]}


def extreme_case(spec):
    """Reruns over a directory whose figures leave the representable range (an address owning more than 2^64-1, a total volume past 2^64):
    the statement of C13 has no exception for such data - whatever a build prints (a wrapped sum, an abort), it must print it on every
    run and for every thread count. Only run-to-run equality is checked here, nothing is compared with the model."""
    coin = spec["coin"]
    rng = random.Random("C13x|%s|%s" % (spec["seed"], spec["n"]))
    cb = gen.ChainBuilder(rng, coin)
    owners = [histories.p2pkh_for(b"rich%d" % i) for i in range(4)]
    for _ in range(6):
        txs = []
        for o in owners:
            vals = [rng.choice([2**63, 2**63 + rng.randint(1, 10**6), 2**62 + rng.randint(0, 10**9), rng.randint(1, 10**12), 2**64 - 1 - rng.randint(0, 1000)])
                    for _ in range(rng.randint(1, 3))]
            txs.append(Tx(1, [TxIn(rbytes(rng, 32), rng.randint(0, 3), b"", 0xFFFFFFFF)], [TxOut(val, o) for val in vals] + [cb.out("p2pkh")], 0))
        cb.add_block(txs=txs)
    chain = cb.chain()
    work = harness.fresh(os.path.join(spec["work"], "c%d" % spec["n"]))
    d = os.path.join(work, "d")
    datadir.write_datadir(d, COINS[coin], harness.simple_layout(chain))
    v, counters = [], {"runs": 0, "extreme_value_runs": 0}
    for profile in spec["profiles"]:
        binary = core.build(profile)
        for cbname in ("balances", "unspentcsvdump", "simplestats", "csvdump"):
            seen = {}
            for rep, threads in enumerate(spec["threads"]):
                dump = harness.fresh(os.path.join(work, "o"))
                p = core.run(harness.cli(binary, d, coin, cbname, dump), env={"RAYON_NUM_THREADS": str(threads)}, timeout=600)
                if p.timed_out:
                    raise Inconclusive("watchdog fired (extreme values, threads=%d)" % threads)
                counters["runs"] += 1
                counters["extreme_value_runs"] += 1
                seen.setdefault((p.rc, digest_outputs(cbname, p, dump) if p.rc == 0 else None), []).append((rep, threads))
            if len(seen) > 1:
                v.append(viol("rerun:extreme-values", "%s (%s build) gives %d different results over %d runs of one directory whose per-address sums exceed 2^64-1: %s [coin=%s]" % (
                    cbname, profile, len(seen), len(spec["threads"]), [(rc, (dg or "-")[:10], runs[:3]) for (rc, dg), runs in seen.items()][:4], coin)))
    shutil.rmtree(work, ignore_errors=True)
    return {"evaluations": counters["runs"], "violations": v, "counters": counters, "shapes": ["extreme|%s|%s" % (coin, "+".join(spec["profiles"]))],
            "sample": {"kind": "extreme", "coin": coin, "threads": spec["threads"]}}


def run_on_pty(argv, env):
    """stdout and stderr are a (raw) pseudo terminal, as when the command is typed in a shell: what the tool prints must not depend on it"""
    import pty
    import subprocess
    import termios
    import select
    import time as _time
    master, slave = pty.openpty()
    attrs = termios.tcgetattr(slave)
    attrs[1] = attrs[1] & ~termios.OPOST          # no output post-processing (no \n -> \r\n)
    termios.tcsetattr(slave, termios.TCSANOW, attrs)
    e = dict(os.environ)
    e.pop("RUST_LOG", None)
    e.update(env)
    t0 = _time.time()
    pr = subprocess.Popen(argv, env=e, stdin=subprocess.DEVNULL, stdout=slave, stderr=slave, close_fds=True)
    os.close(slave)
    buf = b""
    while True:
        r, _, _ = select.select([master], [], [], 0.2)
        if r:
            try:
                chunk = os.read(master, 65536)
            except OSError:
                break
            if not chunk:
                break
            buf += chunk
        elif pr.poll() is not None:
            break
        if _time.time() - t0 > 600:
            pr.kill()
            os.close(master)
            raise Inconclusive("watchdog fired (pty run)")
    rc = pr.wait()
    os.close(master)
    return core.Proc(rc, buf.decode("utf-8", errors="replace"), "", False, _time.time() - t0)


def env_case(spec):
    """One directory, one set of range options, different surroundings: working directory (relative -d path), dump folder name with
    spaces and a trailing slash, locale / time zone / RUST_LOG / HOME, log verbosity (-v, -vv: more log lines, same results)."""
    coin = spec["coin"]
    rng = random.Random("C13env|%s|%s" % (spec["seed"], spec["n"]))
    chain = sched_chain(rng, coin, spec["shape"])
    work = harness.fresh(os.path.join(spec["work"], "c%d" % spec["n"]))
    d = os.path.join(work, "data dir")
    datadir.write_datadir(d, COINS[coin], harness.simple_layout(chain))
    binary = core.build("release")
    v, counters = [], {"runs": 0, "environment_variants": 0}
    variants = [("baseline", {}, None, "o", 0), ("dump-folder-with-spaces-and-slash", {}, None, "out put dir/", 0), ("relative-datadir", {}, work, "o", 0),
                ("locale-tz", {"LANG": "tr_TR.UTF-8", "LC_ALL": "tr_TR.UTF-8", "LC_NUMERIC": "de_DE.UTF-8", "TZ": "Asia/Kolkata"}, None, "o", 0),
                ("rust-log", {"RUST_LOG": "trace", "RUST_BACKTRACE": "full"}, None, "o", 0), ("no-home", {"HOME": "/nonexistent"}, None, "o", 0),
                ("verbose-1", {}, None, "o", 1), ("verbose-2", {}, None, "o", 2),
                ("long-dump-path", {}, None, "/".join(["p" * 60] * 3), 0), ("stdout-is-a-terminal", {"TERM": "xterm-256color"}, None, "o", 0)]
    for cbname in spec["callbacks"]:
        digests = {}
        for name, env, cwd, dumpname, verbosity in variants:
            dump = os.path.join(work, dumpname)
            shutil.rmtree(dump.rstrip("/"), ignore_errors=True)
            os.makedirs(dump, exist_ok=True)
            argv = harness.cli(binary, "./data dir" if cwd else d, coin, cbname, dump, verbosity=verbosity)
            if name == "stdout-is-a-terminal":
                p = run_on_pty(argv, dict(env, RAYON_NUM_THREADS="8"))
                counters["runs_with_stdout_on_a_terminal"] = counters.get("runs_with_stdout_on_a_terminal", 0) + 1
            else:
                p = core.run(argv, env=dict(env, RAYON_NUM_THREADS="8"), cwd=cwd, timeout=600)
            if p.timed_out:
                raise Inconclusive("watchdog fired (environment variant %s)" % name)
            counters["runs"] += 1
            counters["environment_variants"] += 1
            bad = model_check(cbname, p, dump, chain, coin)
            v.extend(viol("environment:" + sig, "%s [%s, variant %s, coin=%s]" % (det, cbname, name, coin)) for sig, det in bad[:1])
            digests[name] = digest_outputs(cbname, p, dump) if p.rc == 0 else "exit %s" % p.rc
        if len(set(digests.values())) > 1:
            v.append(viol("environment:runs-differ", "%s: results differ between environment variants: %s [coin=%s]" % (
                cbname, sorted((dg or "-")[:10] + ":" + nm for nm, dg in digests.items()), coin)))
    shutil.rmtree(work, ignore_errors=True)
    return {"evaluations": counters["runs"], "violations": v[:4], "counters": counters, "shapes": ["environment|%s|%s" % (coin, c) for c in spec["callbacks"]],
            "sample": {"kind": "environment", "coin": coin, "variants": [x[0] for x in variants]}}


def suspend_case(spec):
    """A run that is suspended for more than ten seconds while it delivers blocks (SIGSTOP ... SIGCONT): elapsed time is the only thing
    that differs from the undisturbed run, and it reaches code no short run reaches (the progress report of the driver, due every 10 s).
    Results must be those of the undisturbed run and of the model."""
    coin, cbname = spec["coin"], spec["callback"]
    rng = random.Random("C13s|%s|%s" % (spec["seed"], spec["n"]))
    chain = gen.simple_chain(rng, coin, spec["blocks"], max_tx=3)
    work = harness.fresh(os.path.join(spec["work"], "c%d" % spec["n"]))
    d = os.path.join(work, "d")
    from .. import layouts
    kw, _desc, _ = layouts.make_layout(rng, chain, coin, assign="contiguous", nfiles=3)
    datadir.write_datadir(d, COINS[coin], **kw)
    binary = core.build("release")
    v, counters = [], {"runs": 0}
    s, e = spec.get("start"), spec.get("end")
    dump = harness.fresh(os.path.join(work, "o"))
    p0 = harness.run_cb(binary, d, coin, cbname, dump, s, e, vary=False)
    counters["runs"] += 1
    dg0 = digest_outputs(cbname, p0, dump) if p0.rc == 0 else "exit %s" % p0.rc
    dump = harness.fresh(os.path.join(work, "o2"))
    p1, hit = core.run_suspended(harness.cli(binary, d, coin, cbname, dump, s, e), {"RAYON_NUM_THREADS": "2", "RBP_VERIF_JITTER": str(spec["n"])},
                                 os.path.join(work, "ev.jsonl"), pauses=spec["pauses"], every=spec["blocks"] // 4)
    if p1.timed_out:
        raise Inconclusive("watchdog fired (suspended run)")
    counters["runs"] += 1
    counters["suspended_runs"] = 1
    counters["suspensions_that_hit_a_live_run"] = hit
    progress = (p1.out + p1.err).count("Status:")
    counters["progress_reports_observed"] = progress
    if hit:
        counters["suspended_runs_hit"] = 1
    S = s or 0
    sub = dump
    if cbname == "csvdump":
        bad = oracles.check_csvdump(p1, sub, chain, coin, S, e)
    elif cbname == "unspentcsvdump":
        bad = oracles.check_unspent(p1, sub, chain, coin, S, e)
    elif cbname == "balances":
        bad = oracles.check_balances(p1, sub, chain, coin, S, e)
    elif cbname == "simplestats":
        bad = oracles.check_stats(p1, chain, coin, S, e)
    else:
        bad = oracles.check_opreturn(p1, chain, coin, S, e)
    what = "%s %s..%s, suspended %d x for %s s while delivering blocks, %d progress reports seen" % (cbname, s, e, hit, spec["pauses"][0], progress)
    v.extend(viol("suspended:" + sig, "%s [%s coin=%s]" % (det, what, coin)) for sig, det in bad[:2])
    dg1 = digest_outputs(cbname, p1, dump) if p1.rc == 0 else "exit %s" % p1.rc
    if dg0 != dg1:
        v.append(viol("suspended:runs-differ", "the suspended run differs from the undisturbed run of the same directory and options (%s vs %s) [%s coin=%s]" % (
            str(dg0)[:12], str(dg1)[:12], what, coin)))
    counters["cross_run_comparisons"] = 1
    shutil.rmtree(work, ignore_errors=True)
    return {"evaluations": counters["runs"], "violations": v, "counters": counters,
            "shapes": ["suspended|%s|%s|%s" % (cbname, "ranged" if (s or e) else "full", "progress" if progress else "no-progress-line")],
            "sample": {"kind": "suspended", "coin": coin, "callback": cbname, "pauses": list(spec["pauses"]), "hit": hit, "progress_reports": progress}}


def concurrent_case(spec):
    """Two instances at the same time: instance A is stopped (SIGSTOP) while it delivers blocks, instance B - same callback, another data
    directory and another dump folder, the same working directory, TMPDIR and HOME - runs from start to end, then A continues. Each
    result depends on its own data directory and options only."""
    coin_a, coin_b, cbname = spec["coin"], spec["coin_b"], spec["callback"]
    rng = random.Random("C13c|%s|%s" % (spec["seed"], spec["n"]))
    chain_a = gen.simple_chain(rng, coin_a, spec["blocks"], max_tx=3)
    chain_b = gen.simple_chain(rng, coin_b, 40, max_tx=3)
    work = harness.fresh(os.path.join(spec["work"], "c%d" % spec["n"]))
    da, db = os.path.join(work, "da"), os.path.join(work, "db")
    datadir.write_datadir(da, COINS[coin_a], harness.simple_layout(chain_a))
    datadir.write_datadir(db, COINS[coin_b], harness.simple_layout(chain_b))
    binary = core.build("release")
    tmpd = harness.fresh(os.path.join(work, "tmp"))
    env = {"TMPDIR": tmpd, "HOME": tmpd, "RAYON_NUM_THREADS": "2"}
    dump_a, dump_b = harness.fresh(os.path.join(work, "oa")), harness.fresh(os.path.join(work, "ob"))
    box = {}

    def other_instance():
        box["p"] = core.run(harness.cli(binary, db, coin_b, cbname, dump_b), env=env, cwd=work, timeout=300)
    pa, hit = core.run_suspended(harness.cli(binary, da, coin_a, cbname, dump_a), dict(env, RBP_VERIF_JITTER="5"), os.path.join(work, "ev.jsonl"),
                                 pauses=(0.05,), while_stopped=other_instance, cwd=work, timeout=600)
    if pa.timed_out or "p" not in box and hit:
        raise Inconclusive("watchdog fired (concurrent instances)")
    v, counters = [], {"runs": 1 + (1 if "p" in box else 0), "concurrent_pairs": 1, "concurrent_pairs_overlapping": 1 if hit else 0}
    what = "%s, instance B (%s, 40 blocks) ran completely while instance A (%s, %d blocks) was stopped in mid-run" % (cbname, coin_b, coin_a, spec["blocks"])
    for name, p, dump, chain, coin in (("A", pa, dump_a, chain_a, coin_a),) + ((("B", box["p"], dump_b, chain_b, coin_b),) if "p" in box else ()):
        bad = model_check(cbname, p, dump, chain, coin)
        v.extend(viol("concurrent:" + sig, "instance %s: %s [%s]" % (name, det, what)) for sig, det in bad[:1])
    left = os.listdir(tmpd)
    counters["files_left_in_TMPDIR"] = len(left)
    shutil.rmtree(work, ignore_errors=True)
    return {"evaluations": counters["runs"], "violations": v, "counters": counters,
            "shapes": ["concurrent|%s|%s" % (cbname, "overlap" if hit else "no-overlap")],
            "sample": {"kind": "concurrent", "callback": cbname, "coins": [coin_a, coin_b], "overlapped": bool(hit)}}


def dispatch(spec):
    return {"env": env_case, "sched": sched_case, "history": history_case, "tsan": tsan_case, "nohooks": nohooks_case, "extreme": extreme_case, "suspend": suspend_case, "concurrent": concurrent_case}[spec["case"]](spec)


def plan(chk):
    rng = chk.rng("plan")
    specs = []
    n = 0
    shapes = [[(600, 1), (1, 300), (40, 40)], [(200, 30), (3, 3), (1, 1), (64, 8)], [(17, 120), (300, 2)]]
    all_cb = ["csvdump", "simplestats", "opreturn", "unspentcsvdump", "balances"]
    for i, shape in enumerate(shapes if not chk.thorough else shapes * 4):
        n += 1
        configs = [(t, None, False) for t in THREADS] + [(t, j, False) for t in (2, 3, 8, 16) for j in ((1, 2) if not chk.thorough else (1, 2, 3, 4, 5))] \
                  + [(64, 7, True), (64, None, True), (16, 9, True)]
        specs.append(dict(case="sched", coin=COIN_NAMES[n % 8], seed=chk.seed, n=n, shape=shape, configs=configs,
                          callbacks=all_cb if i % 3 == 0 else (["csvdump", "unspentcsvdump"] if i % 3 == 1 else ["csvdump", "simplestats", "opreturn", "balances"])))
    cbs = ["csvdump", "unspentcsvdump", "balances", "simplestats", "opreturn"]
    for i in range(24 if chk.thorough else 6):
        n += 1
        seq = []
        for k in range(10):
            cbname = cbs[(i + k) % 5] if k % 2 == 0 else cbs[i % 3]
            r = rng.random()
            s, e = (None, None) if r < 0.6 else ((rng.randint(1, 4), None) if r < 0.8 else (None, rng.randint(3, 8)))
            seq.append((cbname, s, e))
        seq[1] = (cbs[i % 3], None, None)
        seq.append(seq[1])     # identical rerun
        specs.append(dict(case="history", coin=COIN_NAMES[n % 8], seed=chk.seed, n=n, sequence=seq, xor=(i % 2 == 0), trace=True))
    for i in range(4 if chk.thorough else 1):
        n += 1
        specs.append(dict(case="env", coin=COIN_NAMES[(chk.seed + 1 + i * 3) % 8], seed=chk.seed, n=n, shape=[(30, 6), (2, 40), (1, 1)], callbacks=all_cb))
    for i in range(4 if chk.thorough else 1):
        n += 1
        specs.append(dict(case="extreme", coin=COIN_NAMES[(chk.seed + i * 3) % 8], seed=chk.seed, n=n, profiles=["release", "debug"] if i % 2 == 0 else ["release"],
                          threads=[1, 2, 3, 8, 16, 64, 8, 2] if chk.thorough else [1, 2, 8, 16, 3, 8]))
    for i, cbname in enumerate(all_cb + (all_cb if chk.thorough else [])):
        n += 1
        ranged = i >= 5
        specs.append(dict(case="suspend", coin=COIN_NAMES[(chk.seed + i) % 8], seed=chk.seed, n=n, callback=cbname, blocks=2400,
                          start=(700 if ranged else None), end=(2100 if ranged and i % 2 else None), pauses=[10.4, 10.4] if (chk.thorough and i % 2) else [10.4]))
    for i, cbname in enumerate(all_cb * (2 if chk.thorough else 1)):
        n += 1
        specs.append(dict(case="concurrent", coin=COIN_NAMES[(chk.seed + i) % 8], coin_b=COIN_NAMES[(chk.seed + i + (3 if i < 5 else 0)) % 8], seed=chk.seed, n=n,
                          callback=cbname, blocks=2000))
    if chk.thorough:
        for i in range(3):
            n += 1
            specs.append(dict(case="nohooks", coin=COIN_NAMES[(i * 3) % 8], seed=chk.seed, n=n, shape=[(60, 12), (3, 80), (1, 1)]))
        for i, t in enumerate((2, 8, 64)):
            n += 1
            specs.append(dict(case="tsan", coin=COIN_NAMES[i], seed=chk.seed, n=n, shape=[(120, 10), (5, 150)], threads=t, callbacks=["csvdump", "unspentcsvdump", "simplestats"]))
    return specs


def main():
    chk = core.Check("C13")
    core.build("release")
    core.ldbtool()
    if chk.thorough:
        core.build("release-nohooks")
        try:
            core.build("tsan")
        except Inconclusive as e:
            chk.note_inconclusive("tsan build unavailable: %s" % e)
    specs = plan(chk)
    for sp in specs:
        sp["work"] = chk.workdir
    # the contention cases are themselves parallel programs: run the schedule cases a few at a time
    sched = [s for s in specs if s["case"] not in ("history", "suspend", "concurrent")]
    hist = [s for s in specs if s["case"] in ("history", "suspend", "concurrent")]
    hist.sort(key=lambda s: s["case"] != "suspend")
    for res in core.parallel(dispatch, sched, jobs=4):
        chk.absorb(res)
    for res in core.parallel(dispatch, hist):
        chk.absorb(res)
    # non-vacuity: the hooks must have reported the evaluation tasks; whether the work was split across workers is
    # reported (distinct schedules) but not demanded — a sequential implementation satisfies the property trivially
    split = chk.counters.get("parallel_runs_with_split_work", 0)
    if split == 0:
        chk.shape("no-parallel-split-observed")
        chk.shape("implementation-appears-sequential")
    chk.finish(RULE, floor={"cross_run_comparisons": 5, "rerun_comparisons": 6, "input_integrity_checks": 6,
                            "trace_events_seen": 50, "h3_events": 10000, "suspended_runs_hit": 3, "concurrent_pairs_overlapping": 3},
               assumptions=["the jitter hook sleeps inside a task (like a slow script), it cannot create interleavings the program cannot have",
                            "a run in which one worker evaluated every transaction of every block does not count as a distinct schedule",
                            "index integrity is judged on the key/value content (ldbtool dump of a copy), not on LevelDB's file layout, which legitimately changes on open"])


def replay(spec):
    core.replay_case("C13", {"env": env_case, "sched": sched_case, "history": history_case, "tsan": tsan_case, "nohooks": nohooks_case, "extreme": extreme_case, "suspend": suspend_case, "concurrent": concurrent_case}, spec)
