"""C10 — exit status 0 means complete, final-named output; any failure leaves none (fault enumeration)."""
import os
import random
import re
import shutil

from .. import core, harness, datadir, model, oracles, gen, strace, layouts
from ..chain import COINS, Tx, TxIn, TxOut
from ..core import viol, Inconclusive
from ..datadir import Placement, ACTIVE
from ..gen import rbytes

RULE = ("fault enumeration on real runs of csvdump/unspentcsvdump/balances. Input faults: for every height of the range x {blk file "
        "removed, emptied, truncated at byte b of the stored block (quick: size prefix, header and every 7th byte; thorough: every byte), "
        "index offset past EOF}, on plain and on XOR-obfuscated directories: exit!=0, 'Error at height N' with N = lowest height whose stored bytes are cut, no final-named file. "
        "Output faults: RLIMIT_FSIZE on a grid from 0 to beyond the full output size (short write + EFBIG, SIGXFSZ ignored) and strace-"
        "injected ENOSPC/EIO at the k-th write to an output file for every k, on outputs below the 4 MB writer buffer and of 8-20 MB. "
        "Crash points: SIGKILL injected at every ordinal of openat/write/rename/close touching an output path, plus SIGKILL at random instants of multi-MB runs. Oracles: (1) outcome: "
        "(exit 0 and outputs byte-identical to the undisturbed run and no *.tmp) or (exit!=0 and no final-named file); (2) trace spec "
        "over the strace log of every traced run: a final name only ever appears through rename(tmp->final) and no write reaches a file "
        "after it carries its final name; (3) after SIGKILL no final-named file differs from the undisturbed output. "
        "Mid-run faults: EMFILE/ENOENT/EACCES/EIO injected (strace) at every open and every read of a blk file; a blk file unlinked / shrunk while the run is suspended (SIGSTOP) after its first blocks; a blk file holding 255..1024 blocks of the range removed / emptied / cut: exit!=0, failing height = the block being fetched (hook log), no final-named file. Termination signals (SIGINT, SIGTERM, SIGHUP; thorough: SIGQUIT, SIGUSR1, SIGPIPE) delivered in mid-run: judged by oracle (1). Readers of stdout / stderr gone (closed pipe, reader that leaves after one line, /dev/full) with and without -vv: judged by oracle (1). distinct = (callback, fault kind, position class, output size class, outcome) signatures")

CALLBACKS = ["csvdump", "unspentcsvdump", "balances"]
ERR_RE = re.compile(r"Error at height (\d+):")


def is_final(name):
    return name.endswith(".csv")


def norm(name, text):
    """unspent/balances rows come out in hash-map order: compare header + sorted rows (a torn last row still differs)"""
    if name.startswith("unspent-") or name.startswith("balances-"):
        lines = text.split("\n")
        return "\n".join(lines[:1] + sorted(lines[1:]))
    return text


def read_norm(dump):
    return {n: norm(n, t) for n, t in harness.read_dump(dump).items()}


def small_chain(rng, coin, n=6):
    return gen.simple_chain(rng, coin, n, max_tx=3)


def big_chain(rng, coin, nout):
    """chain whose csvdump / unspent / balances outputs exceed the 4 MB writer buffers several times
    (nout unique address outputs, big scriptSigs)"""
    cb = gen.ChainBuilder(rng, coin)
    per_block = max(1, nout // 6)
    for b in range(6):
        outs = [TxOut(1 + i, b"\x76\xa9\x14" + rbytes(rng, 20) + b"\x88\xac") for i in range(per_block)]
        t = Tx(1, [TxIn(rbytes(rng, 32), 0, rbytes(rng, 20000), 0xFFFFFFFF)], outs, 0)
        cb.add_block(txs=[t])
    # the last rows of tx_in / tx_out are longer than any small writer buffer (a row that a buffered writer hands to
    # write(2) directly): a size limit cutting inside them must not go unnoticed
    last = Tx(1, [TxIn(rbytes(rng, 32), 1, rbytes(rng, 30000), 0xFFFFFFFF)], [TxOut(5, b"\x76\xa9\x14" + rbytes(rng, 20) + b"\x88\xac"), TxOut(6, rbytes(rng, 30000))], 0)
    cb.add_block(txs=[last])
    return cb.chain()


def outcome(p, dump, ref, what):
    """oracle (1). ref: name -> content of the undisturbed run."""
    v = []
    have = read_norm(dump)
    finals = {n: t for n, t in have.items() if is_final(n)}
    tmps = [n for n in have if n.endswith(".tmp")]
    if p.rc == 0:
        if tmps:
            v.append(viol("exit0-tmp-left", "exit 0 but *.tmp files remain: %s (%s)" % (tmps, what)))
        if sorted(finals) != sorted(ref):
            v.append(viol("exit0-missing-output", "exit 0 but final files are %s, undisturbed run has %s (%s)" % (sorted(finals), sorted(ref), what)))
        for n, t in finals.items():
            if n in ref and t != ref[n]:
                v.append(viol("exit0-incomplete-output", "exit 0 but %s differs from the undisturbed output (%d bytes vs %d) (%s)" % (n, len(t), len(ref[n]), what)))
                break
    else:
        if finals:
            v.append(viol("failure-leaves-final", "exit %s but final-named files exist: %s (%s)" % (p.rc, sorted(finals), what)))
    return v


def trace_spec(events, dump, v, what):
    """oracle (2) over parsed strace events. Returns number of relevant events."""
    dump = os.path.abspath(dump)
    n = 0
    renamed_to = set()
    for e in events:
        call = e.get("call")
        if call in ("openat", "open", "creat"):
            ap = e.get("abspath") or ""
            if ap.startswith(dump + "/") and is_final(os.path.basename(ap)) and ("O_WRONLY" in e["flags"] or "O_RDWR" in e["flags"] or "O_CREAT" in e["flags"]):
                n += 1
                v.append(viol("trace:final-opened-for-writing", "final-named file %s opened for writing directly (%s)" % (os.path.basename(ap), what)))
        elif call in ("rename", "renameat", "renameat2") and e.get("ret") == 0 and e.get("dst"):
            dst = os.path.basename(e["dst"])
            if is_final(dst):
                n += 1
                renamed_to.add(dst)
                if not e["src"].endswith(".tmp"):
                    v.append(viol("trace:final-not-from-tmp", "final name %s produced from %s (%s)" % (dst, e["src"], what)))
        elif call in ("write", "pwrite64", "writev", "ftruncate"):
            fp = e.get("fdpath") or ""
            if fp.startswith(dump + "/"):
                n += 1
                if is_final(os.path.basename(fp)) and (e.get("ret") or 0) != 0:
                    v.append(viol("trace:write-after-rename", "%s of %s bytes to %s after it got its final name (%s)" % (call, e.get("ret"), os.path.basename(fp), what)))
                    return n
        elif call in ("link", "linkat", "symlink") and e.get("dst") and is_final(os.path.basename(e["dst"])) and os.path.abspath(e["dst"]).startswith(dump):
            v.append(viol("trace:final-linked", "final name %s created by %s (%s)" % (e["dst"], call, what)))
    return n


def prepare(spec, work):
    coin = spec["coin"]
    rng = random.Random("C10|%s|%s" % (spec["seed"], spec["chain"]))
    chain = big_chain(rng, coin, spec["mb"]) if spec.get("mb") else small_chain(rng, coin, spec.get("blocks", 6))
    d = os.path.join(work, "d")
    nfiles = spec.get("nfiles", 1)
    kw, desc, pl_index = layouts.make_layout(rng, chain, coin, assign="contiguous" if nfiles > 1 else "single", nfiles=nfiles)
    xor_key = bytes(rng.randrange(1, 256) for _ in range(8)) if spec.get("xor") else None
    datadir.write_datadir(d, COINS[coin], xor_key=xor_key, **kw)
    return chain, d, kw, pl_index


def reference_run(binary, d, coin, cbname, work, s, e):
    dump = harness.fresh(os.path.join(work, "ref"))
    p = harness.run_cb(binary, d, coin, cbname, dump, s, e, timeout=600)
    if p.rc != 0:
        raise Inconclusive("undisturbed run failed: %s" % (p.err or p.out)[-200:])
    ref = {n: t for n, t in read_norm(dump).items() if is_final(n)}
    if not ref:
        raise Inconclusive("undisturbed run produced no output")
    return ref


# ------------------------------------------------------------------ input faults
def input_case(spec):
    coin, cbname = spec["coin"], spec["callback"]
    work = harness.fresh(os.path.join(spec["work"], "c%d" % spec["n"]))
    chain, d, kw, pl_index = prepare(spec, work)
    binary = core.build(spec.get("profile", "release"))
    s, e = spec.get("start"), spec.get("end")
    ref = reference_run(binary, d, coin, cbname, work, s, e)
    processed = [h for h, _ in model.in_range(chain, s or 0, e)]
    names = kw["names"]
    pls = {p.height: p for p in kw["placements"] if p.indexed}
    v, counters, shapes = [], {"runs": 1, "input_faults": 0}, set()
    rng = random.Random("C10in|%s|%s" % (spec["seed"], spec["n"]))

    def run_fault(what, expect_height, kind):
        dump = harness.fresh(os.path.join(work, "o"))
        p = harness.run_cb(binary, d, coin, cbname, dump, s, e, timeout=300)
        counters["runs"] += 1
        counters["input_faults"] += 1
        counters["input_faults:" + kind] = counters.get("input_faults:" + kind, 0) + 1
        vv = outcome(p, dump, ref, what)
        if expect_height is None:
            # fault outside the processed range: the run must succeed with the undisturbed output
            if p.rc != 0:
                vv.append(viol("unaffected-range-fails", "fault does not touch a processed block, yet exit %s (%s): %s" % (p.rc, what, p.err[-200:])))
            shapes.add("%s|%s|outside-range|ok" % (cbname, kind))
        else:
            if p.rc == 0:
                vv.append(viol("input-fault-exit0", "exit 0 although block %d cannot be read (%s)" % (expect_height, what)))
            else:
                m = harness.reported_error_height(p.err)
                if m is None:
                    vv.append(viol("input-fault-no-height", "failure does not report the failing height (%s): %s" % (what, p.err[-200:].replace("\n", " | "))))
                elif m != expect_height:
                    vv.append(viol("input-fault-wrong-height", "reported height %s, first unreadable block is %d (%s)" % (m, expect_height, what)))
            shapes.add("%s|%s|h=%s|fail" % (cbname, kind, "first" if expect_height == processed[0] else ("last" if expect_height == processed[-1] else "mid")))
        v.extend(vv)

    def first_cut(fno, cut):
        """lowest processed height stored in file fno whose bytes [offset-4, offset+len) extend past `cut`"""
        hs = [h for h in processed if pls[h].file == fno and pls[h].offset + len(pls[h].block.ser()) > cut]
        return min(hs) if hs else None

    files = sorted(set(p.file for p in pls.values()))
    for fno in files:
        path = os.path.join(d, names[fno])
        backup = path + ".bak"
        os.rename(path, backup)
        hs = [h for h in processed if pls[h].file == fno]
        # removed
        if len(files) > 1:
            run_fault("blk file %s removed" % names[fno], min(hs) if hs else None, "removed")
        # emptied
        open(path, "wb").close()
        run_fault("blk file %s emptied" % names[fno], min(hs) if hs else None, "emptied")
        # truncated at byte b of each block
        size = os.path.getsize(backup)
        for h in [x for x in sorted(pls) if pls[x].file == fno]:
            pl = pls[h]
            blen = len(pl.block.ser())
            begin = pl.offset - 8
            pts = list(range(0, 8 + 80 + 2)) + list(range(90, 8 + blen, 1 if spec.get("every_byte") else 7)) + [8 + blen - 1]
            if spec.get("max_cuts"):
                head = [x for x in pts if x < 12]
                rest = [x for x in pts if x >= 12]
                rng.shuffle(rest)
                pts = head + rest[:spec["max_cuts"]]
            for b in sorted(set(pts)):
                cut = begin + b
                if cut >= size:
                    continue
                shutil.copyfile(backup, path)
                os.truncate(path, cut)
                run_fault("blk file %s truncated at byte %d of the block of height %d" % (names[fno], b, h), first_cut(fno, cut), "truncated")
        os.unlink(path)
        os.rename(backup, path)
    # offset past EOF: rewrite the index with one record pointing beyond the end of its file
    for h in ([processed[0], processed[len(processed) // 2], processed[-1]] if processed else []):
        pl = pls[h]
        old = pl.offset
        fsize = os.path.getsize(os.path.join(d, names[pl.file]))
        for newoff in (fsize + 4, fsize + 100000, fsize):
            pairs = []
            for q in kw["placements"]:
                if q.indexed:
                    pairs.append((b"b" + q.block.hash, datadir.index_value(q.height, q.status, len(q.block.txs), q.block.header(), q.file,
                                                                          newoff if q is pl else q.offset, None)))
            datadir.write_index(os.path.join(d, "index"), pairs)
            run_fault("index offset of height %d set to %d (file size %d)" % (h, newoff, fsize), h, "offset-past-eof")
        pairs = [(b"b" + q.block.hash, datadir.index_value(q.height, q.status, len(q.block.txs), q.block.header(), q.file, q.offset, None))
                 for q in kw["placements"] if q.indexed]
        datadir.write_index(os.path.join(d, "index"), pairs)
    shutil.rmtree(work, ignore_errors=True)
    return {"evaluations": counters["runs"], "violations": v, "counters": counters, "shapes": sorted(shapes),
            "sample": {"kind": "input", "callback": cbname, "coin": coin, "files": len(files), "range": [s, e], "faults": counters["input_faults"]}}


# ------------------------------------------------------------------ output faults
def output_case(spec):
    coin, cbname = spec["coin"], spec["callback"]
    work = harness.fresh(os.path.join(spec["work"], "c%d" % spec["n"]))
    chain, d, kw, pl_index = prepare(spec, work)
    binary = core.build(spec.get("profile", "release"))
    ref = reference_run(binary, d, coin, cbname, work, None, None)
    sizes = {n: len(t.encode("utf-8")) for n, t in ref.items()}
    total = max(sizes.values())
    sizecls = "<4MB" if total < 4000000 else ">=4MB"
    v, counters, shapes = [], {"runs": 1}, set()
    dump = os.path.abspath(os.path.join(work, "o"))
    tmp_names = {"csvdump": ["blocks.csv.tmp", "transactions.csv.tmp", "tx_in.csv.tmp", "tx_out.csv.tmp"],
                 "unspentcsvdump": ["unspent.csv.tmp"], "balances": ["balances.csv.tmp"]}[cbname]
    paths = [os.path.join(dump, n) for n in tmp_names] + [os.path.join(dump, n) for n in ref]
    argv = harness.cli(binary, d, coin, cbname, dump)

    # (a) undisturbed traced run: trace spec + count of output syscalls
    harness.fresh(dump)
    tf = os.path.join(work, "trace.log")
    p = strace.traced(argv, tf, paths=None)
    counters["runs"] += 1
    counters["traced_runs"] = 1
    ev = strace.parse(tf)
    n_rel = trace_spec(ev, dump, v, "%s undisturbed, output %s" % (cbname, sizecls))
    counters["trace_events"] = n_rel
    v.extend(outcome(p, dump, ref, "undisturbed traced run"))
    out_writes = [e for e in ev if e.get("call") == "write" and (e.get("fdpath") or "").startswith(dump + "/")]
    out_sys = [e for e in ev if (e.get("call") in ("write", "close") and (e.get("fdpath") or "").startswith(dump + "/"))
               or (e.get("call") == "openat" and (e.get("abspath") or "").startswith(dump + "/"))
               or (e.get("call") in ("rename",) and is_final(os.path.basename(e.get("dst") or "")))]
    counters["max_output_writes_in_one_run"] = len(out_writes)
    shapes.add("%s|undisturbed|%s|writes=%d" % (cbname, sizecls, len(out_writes)))

    # (b) RLIMIT_FSIZE grid
    if "fsize" in spec["faults"]:
        grid = sorted(set([0, 1, 100, 4096, 65536, 999999, 3999999, 4000000, 4000001, 7999999, 8000001, total - 1, total, total + 1, total // 2, total // 3]
                          + [min(sizes.values()) - 1, min(sizes.values()), min(sizes.values()) + 1] + [int(total * f) for f in spec.get("fractions", [])]
                          # cuts inside the LAST row(s) of every single output file (also rows larger than a small writer buffer)
                          + [sz - d for sz in sizes.values() for d in (1, 100, 10000, 30000)] + [sz + 1 for sz in sizes.values()]))
        for lim in [g for g in grid if 0 <= g <= total + 1]:
            harness.fresh(dump)
            p = harness.run_cb(binary, d, coin, cbname, dump, rlimits={"RLIMIT_FSIZE": lim}, ignore_sigxfsz=True, timeout=300)
            counters["runs"] += 1
            counters["fsize_faults"] = counters.get("fsize_faults", 0) + 1
            hit = "File too large" in (p.err + p.out)
            if hit and any(n.endswith(".tmp") or is_final(n) for n in harness.listing(dump)):
                counters["fsize_faults_hit_output"] = counters.get("fsize_faults_hit_output", 0) + 1
            v.extend(outcome(p, dump, ref, "%s with RLIMIT_FSIZE=%d (full output %d bytes)" % (cbname, lim, total)))
            shapes.add("%s|fsize|%s|%s|%s" % (cbname, "below" if lim < total else "at-or-above", sizecls, "exit0" if p.rc == 0 else "fail"))

    # (c) injected write errors at the k-th output write
    if "inject" in spec["faults"]:
        K = len(out_writes)
        ks = list(range(1, K + 2))
        if spec.get("max_k") and len(ks) > spec["max_k"]:
            ks = ks[:spec["max_k"] // 2] + ks[-spec["max_k"] // 2:]
        for k in ks:
            for err in (("ENOSPC",) if k % 2 else ("EIO",)) if not spec.get("both_errors") else ("ENOSPC", "EIO"):
                harness.fresh(dump)
                p = strace.traced(argv, tf, paths=paths, inject="write:error=%s:when=%d" % (err, k))
                counters["runs"] += 1
                counters["traced_runs"] += 1
                ev2 = strace.parse(tf)
                inj = [e for e in ev2 if e.get("injected")]
                counters["write_faults"] = counters.get("write_faults", 0) + 1
                if inj:
                    counters["write_faults_hit"] = counters.get("write_faults_hit", 0) + 1
                what = "%s with %s injected at output write #%d of %d" % (cbname, err, k, K)
                vv = outcome(p, dump, ref, what)
                if inj and p.rc == 0:
                    vv.append(viol("write-error-exit0", "a write to an output file failed (%s) but the run exited 0" % what))
                counters["trace_events"] += trace_spec(ev2, dump, vv, what)
                v.extend(vv)
                shapes.add("%s|write-%s|k=%s|%s|%s" % (cbname, err, "first" if k == 1 else ("last" if k == K else ("beyond" if k > K else "mid")), sizecls,
                                                        "hit" if inj else "nohit"))

    # (d) SIGKILL at every ordinal of every output syscall kind (strace keeps one injection counter per syscall)
    if "kill" in spec["faults"]:
        for call in ("openat", "write", "rename", "close"):
            N = sum(1 for e in out_sys if e.get("call") == call)
            ns = list(range(1, N + 1))
            if spec.get("max_k") and len(ns) > spec["max_k"]:
                ns = ns[:spec["max_k"] // 2] + ns[-spec["max_k"] // 2:]
            for n in ns:
                harness.fresh(dump)
                p = strace.traced(argv, tf, paths=paths, inject="%s:signal=KILL:when=%d" % (call, n))
                counters["runs"] += 1
                counters["traced_runs"] += 1
                counters["kill_points"] = counters.get("kill_points", 0) + 1
                killed = p.rc in (-9, 137)
                if killed:
                    counters["kill_points_hit"] = counters.get("kill_points_hit", 0) + 1
                have = read_norm(dump)
                what = "%s SIGKILL at %s #%d of %d on the output files" % (cbname, call, n, N)
                for name, t in have.items():
                    if is_final(name) and (name not in ref or ref[name] != t):
                        v.append(viol("crash-leaves-partial-final", "after %s the final-named file %s holds %d bytes, the complete output has %s" % (
                            what, name, len(t), len(ref.get(name, "")) if name in ref else "no such file")))
                        break
                ev3 = strace.parse(tf)
                counters["trace_events"] += trace_spec(ev3, dump, v, what)
                if not killed:
                    v.extend(outcome(p, dump, ref, what + " [kill did not fire]"))
                shapes.add("%s|kill|%s|%s|%s|%s" % (cbname, call, "first" if n == 1 else ("last" if n == N else "mid"), sizecls, "killed" if killed else "survived"))
    # (e) SIGKILL at random instants (wall-clock), complementing the syscall-boundary enumeration
    if spec.get("random_kills"):
        import subprocess
        import time as _time
        t0 = _time.time()
        p = harness.run_cb(binary, d, coin, cbname, harness.fresh(dump))
        dur = max(0.02, _time.time() - t0)
        krng = random.Random("C10kill|%s|%s" % (spec["seed"], spec["n"]))
        for i in range(spec["random_kills"]):
            harness.fresh(dump)
            delay = krng.uniform(0, dur * 1.1)
            # private copy of the index for every kill: a kill while LevelDB rewrites its own files must not
            # influence the next run
            dk = os.path.join(work, "dk")
            shutil.rmtree(dk, ignore_errors=True)
            datadir.clone_datadir(d, dk)
            pr = subprocess.Popen(harness.cli(binary, dk, coin, cbname, dump), stdout=subprocess.DEVNULL, stderr=subprocess.DEVNULL)
            _time.sleep(delay)
            pr.kill()
            rc = pr.wait()
            counters["runs"] += 1
            counters["random_kills"] = counters.get("random_kills", 0) + 1
            if rc == -9:
                counters["random_kills_hit"] = counters.get("random_kills_hit", 0) + 1
            have = read_norm(dump)
            for name, t in have.items():
                if is_final(name) and (name not in ref or ref[name] != t):
                    v.append(viol("crash-leaves-partial-final", "after SIGKILL %.3fs into a %s run (%.3fs long) the final-named file %s holds %d bytes, the complete output has %s" % (
                        delay, cbname, dur, name, len(t), len(ref.get(name, "")) if name in ref else "no such file")))
                    break
            shapes.add("%s|random-kill|%s|%s" % (cbname, sizecls, "killed" if rc == -9 else "finished"))
    shutil.rmtree(work, ignore_errors=True)
    return {"evaluations": counters["runs"], "violations": v, "counters": counters, "shapes": sorted(shapes),
            "sample": {"kind": "output", "callback": cbname, "coin": coin, "output_bytes": sizes, "output_writes": len(out_writes), "output_syscalls": len(out_sys)}}


# ------------------------------------------------------------------ no fault at all: empty and one-block ranges
NFILES = {"csvdump": 4, "unspentcsvdump": 1, "balances": 1}


def clean_case(spec):
    """Undisturbed runs whose range holds no block (or one): 'exit 0 => every output file final-named, no *.tmp' has no exception for
    a run that has nothing to do; a run that refuses the range instead (non-zero exit) must leave no final-named file."""
    coin, cbname = spec["coin"], spec["callback"]
    work = harness.fresh(os.path.join(spec["work"], "c%d" % spec["n"]))
    chain, d, kw, pl_index = prepare(spec, work)
    binary = core.build("release")
    tip = chain[-1][0]
    v, counters, shapes = [], {"clean_runs": 0, "empty_range_runs": 0}, []
    for label, s, e in (("start=tip+1", tip + 1, None), ("start=tip+20", tip + 20, None), ("start=tip+1,end", tip + 1, tip + 9), ("start=tip", tip, None),
                        ("end-above-tip", None, tip + 7), ("full", None, None)):
        dump = harness.fresh(os.path.join(work, "o"))
        p = harness.run_cb(binary, d, coin, cbname, dump, s, e, timeout=300)
        counters["clean_runs"] += 1
        have = harness.read_dump(dump)
        finals = sorted(n for n in have if is_final(n))
        tmps = sorted(n for n in have if n.endswith(".tmp"))
        what = "%s %s on a chain with tip %d, no fault" % (cbname, label, tip)
        empty = s is not None and s > tip
        counters["empty_range_runs"] += 1 if empty else 0
        if p.rc == 0:
            if tmps:
                v.append(viol("exit0-tmp-left", "exit 0 but *.tmp files remain: %s, final files %s (%s)" % (tmps, finals, what)))
            elif len(finals) != NFILES[cbname]:
                v.append(viol("exit0-missing-output", "exit 0 but %d final-named files %s, the callback writes %d (%s)" % (len(finals), finals, NFILES[cbname], what)))
            elif empty:
                rows = sum(max(0, len([ln for ln in have[n].split("\n") if ln]) - (0 if cbname == "csvdump" else 1)) for n in finals)
                if rows:
                    v.append(viol("exit0-incomplete-output", "empty range but %d data rows were written (%s)" % (rows, what)))
            else:
                bad = {"csvdump": oracles.check_csvdump, "unspentcsvdump": oracles.check_unspent, "balances": oracles.check_balances}[cbname](p, dump, chain, coin, s or 0, e)
                v.extend(viol("exit0-incomplete-output", "%s: %s (%s)" % (sig, det, what)) for sig, det in bad[:1])
        elif finals:
            v.append(viol("failure-leaves-final", "exit %s but final-named files exist: %s (%s)" % (p.rc, finals, what)))
        shapes.append("clean|%s|%s|exit%s" % (cbname, label, "0" if p.rc == 0 else "!0"))
    shutil.rmtree(work, ignore_errors=True)
    return {"evaluations": counters["clean_runs"], "violations": v[:3], "counters": counters, "shapes": shapes,
            "sample": {"kind": "clean", "callback": cbname, "coin": coin, "tip": tip}}


# ------------------------------------------------------------------ faults in the middle of a run, and faults that hit many blocks
IN_TRACE = "openat,read"


def _judge_failure(p, dump, ref, what, log, vv, must_fail):
    vv.extend(outcome(p, dump, ref, what))
    if p.rc == 0:
        if must_fail:
            vv.append(viol("input-fault-exit0", "exit 0 although a block of the range could not be read (%s)" % what))
        return
    fetches = [e["height"] for e in harness.read_events(log) if e["ev"] == "fetch"]
    m = harness.reported_error_height(p.err)
    if m is None:
        vv.append(viol("input-fault-no-height", "failure does not report the failing height (%s): %s" % (what, p.err[-200:].replace("\n", " | "))))
    elif fetches and m != fetches[-1]:
        vv.append(viol("input-fault-wrong-height", "reported height %s, the block being fetched when the fault hit was %d (%s)" % (m, fetches[-1], what)))


def midrun_case(spec):
    coin, cbname, kind = spec["coin"], spec["callback"], spec["kind"]
    rng = random.Random("C10mid|%s|%s" % (spec["seed"], spec["n"]))
    work = harness.fresh(os.path.join(spec["work"], "c%d" % spec["n"]))
    d = os.path.join(work, "d")
    binary = core.build("release")
    v, counters, shapes = [], {"runs": 0}, set()
    log = os.path.join(work, "ev.jsonl")
    dump = os.path.abspath(os.path.join(work, "o"))
    if kind == "bulk":
        # one blk file holding N blocks of the range is missing / empty: N failures if somebody counts them, one failing run either way
        N, head, tail = spec["blocks_lost"], 20, 24
        chain = gen.simple_chain(rng, coin, head + N + tail, max_tx=1)
        pls = [Placement(b, h, file=(0 if h < head else (1 if h < head + N else 2))) for h, b in chain]
        datadir.write_datadir(d, COINS[coin], pls)
        s, e = spec.get("start"), spec.get("end")
        ref = reference_run(binary, d, coin, cbname, work, s, e)
        counters["runs"] += 1
        path = os.path.join(d, datadir.default_name(1, 5))
        for fault in ("removed", "emptied", "cut-to-one-block"):
            bak = path + ".bak"
            os.rename(path, bak)
            if fault == "emptied":
                open(path, "wb").close()
            elif fault == "cut-to-one-block":
                shutil.copyfile(bak, path)
                os.truncate(path, 8 + len(chain[head][1].ser()))
            harness.fresh(dump)
            p = harness.run_cb(binary, d, coin, cbname, dump, s, e, log=log, timeout=300)
            counters["runs"] += 1
            counters["bulk_faults"] = counters.get("bulk_faults", 0) + 1
            what = "%s, blk file with the %d blocks %d..%d %s" % (cbname, N, head, head + N - 1, fault)
            vv = []
            _judge_failure(p, dump, ref, what, log, vv, True)
            exp_h = head + (1 if fault == "cut-to-one-block" else 0)
            m = harness.reported_error_height(p.err)
            if p.rc != 0 and m is not None and m != exp_h and not vv:
                vv.append(viol("input-fault-wrong-height", "reported height %s, first unreadable block is %d (%s)" % (m, exp_h, what)))
            v.extend(vv)
            shapes.add("%s|bulk-%s|lost=%d|%s" % (cbname, fault, N, "fail" if p.rc else "exit0"))
            if os.path.exists(path):
                os.unlink(path)
            os.rename(bak, path)
    elif kind == "syscall":
        # one particular open / read of a blk file fails in the middle of the run (EMFILE when the descriptor table is full, EIO from
        # a bad sector, ENOENT/EACCES when the file went away or changed owner after the start-up scan)
        chain = gen.simple_chain(rng, coin, spec.get("blocks", 12), max_tx=3)
        kw, _desc, _ = layouts.make_layout(rng, chain, coin, assign=spec.get("assign", "round_robin"), nfiles=3)
        datadir.write_datadir(d, COINS[coin], xor_key=(rbytes(rng, 8) if spec.get("xor") else None), **kw)
        ref = reference_run(binary, d, coin, cbname, work, None, None)
        counters["runs"] += 1
        paths = [os.path.abspath(os.path.join(d, n)) for n in sorted(os.listdir(d)) if n.startswith("blk")]
        argv = harness.cli(binary, d, coin, cbname, dump)
        tf = os.path.join(work, "trace.log")

        def traced(inject):
            harness.fresh(dump)
            if os.path.exists(log):
                os.unlink(log)
            cmd = [strace.STRACE, "-f", "-y", "-qq", "-s", "0", "-o", tf, "-e", "trace=" + IN_TRACE]
            if inject:
                cmd += ["-e", "inject=" + inject]
            for pth in paths:
                cmd += ["-P", pth]
            pr = core.run(cmd + argv, env={"RBP_VERIF_LOG": log}, timeout=300)
            if pr.timed_out:
                raise Inconclusive("watchdog fired under strace")
            if "strace:" in pr.err and ("attach" in pr.err or "ptrace" in pr.err.lower()):
                raise Inconclusive("strace could not trace: %s" % pr.err[-200:])
            return pr, open(tf, errors="replace").read()
        p0, t0 = traced(None)
        counters["runs"] += 1
        v.extend(outcome(p0, dump, ref, "undisturbed run under the input tracer"))
        n_open, n_read = t0.count(" openat("), t0.count(" read(")
        counters["input_syscalls_seen"] = n_open + n_read
        plan_ = [("openat", k, err) for k in range(1, n_open + 1) for err in (("EMFILE", "ENOENT") if k % 2 else ("EIO", "EACCES"))]
        rk = list(range(1, n_read + 1))
        if spec.get("max_k") and len(rk) > spec["max_k"]:
            rk = rk[:spec["max_k"] // 2] + rk[-spec["max_k"] // 2:]
        plan_ += [("read", k, "EIO") for k in rk]
        for call, k, err in plan_:
            p, t = traced("%s:error=%s:when=%d" % (call, err, k))
            counters["runs"] += 1
            counters["input_syscall_faults"] = counters.get("input_syscall_faults", 0) + 1
            hit = "(INJECTED)" in t
            if hit:
                counters["input_syscall_faults_hit"] = counters.get("input_syscall_faults_hit", 0) + 1
            what = "%s with %s injected at %s #%d on the blk files (%d opens, %d reads in an undisturbed run)" % (cbname, err, call, k, n_open, n_read)
            vv = []
            _judge_failure(p, dump, ref, what, log, vv, hit)
            v.extend(vv)
            shapes.add("%s|%s-%s|%s|%s" % (cbname, call, err, "first" if k == 1 else "later", "fail" if p.rc else "exit0"))
    elif kind == "signal":
        # ^C, `timeout`, `kill`, a service manager stopping the job: the run is told to terminate in the middle of the chain. Whatever the
        # process does about it (die at once - the default - or wind down), exit status 0 promises complete output
        import signal as _signal
        nblocks = spec.get("blocks", 1500)
        chain = gen.simple_chain(rng, coin, nblocks, max_tx=2)
        datadir.write_datadir(d, COINS[coin], harness.simple_layout(chain))
        ref = reference_run(binary, d, coin, cbname, work, None, None)
        counters["runs"] += 1
        for signame in spec["signals"]:
            harness.fresh(dump)
            p, hitn = core.run_suspended(harness.cli(binary, d, coin, cbname, dump), {"RAYON_NUM_THREADS": "2", "RBP_VERIF_JITTER": "3"}, log,
                                         pauses=(0.02,), send_signal=getattr(_signal, signame), timeout=300)
            if p.timed_out:
                raise Inconclusive("watchdog fired (signal in mid-run)")
            counters["runs"] += 1
            counters["signals_sent"] = counters.get("signals_sent", 0) + 1
            if hitn:
                counters["signals_sent_to_a_live_run"] = counters.get("signals_sent_to_a_live_run", 0) + 1
            what = "%s, %s delivered after the first blocks of %d" % (cbname, signame, nblocks)
            if p.rc == 0:
                v.extend(outcome(p, dump, ref, what))
            else:
                # dying of the signal is fine at any moment (even after the output was committed); a partial final-named file never is
                have = read_norm(dump)
                for name, t in have.items():
                    if is_final(name) and (name not in ref or ref[name] != t):
                        v.append(viol("partial-final-file", "exit %s and the final-named file %s differs from the complete output (%s)" % (p.rc, name, what)))
                        break
            shapes.add("%s|signal-%s|%s|%s" % (cbname, signame, "hit" if hitn else "too-late", "exit0" if p.rc == 0 else "fail"))
    else:
        # a blk file disappears / shrinks while the run is under way (pruning node, a copy still in progress being restarted)
        nblocks = spec.get("blocks", 1500)
        chain = gen.simple_chain(rng, coin, nblocks, max_tx=2)
        kw, _desc, _ = layouts.make_layout(rng, chain, coin, assign="contiguous", nfiles=3)
        datadir.write_datadir(d, COINS[coin], **kw)
        ref = reference_run(binary, d, coin, cbname, work, None, None)
        counters["runs"] += 1
        names = sorted(n for n in os.listdir(d) if n.startswith("blk"))
        for action in spec["actions"]:
            dk = os.path.join(work, "dk")
            shutil.rmtree(dk, ignore_errors=True)
            datadir.clone_datadir(d, dk)
            # clone_datadir hard-links the blk files: give this run private copies of the ones it damages
            victim = os.path.join(dk, names[-1] if action != "shrink-open" else names[0])
            tmpc = victim + ".priv"
            shutil.copyfile(victim, tmpc)
            os.replace(tmpc, victim)

            def damage():
                if action == "unlink-later":
                    os.unlink(victim)
                else:
                    os.truncate(victim, os.path.getsize(victim) // 2)
            harness.fresh(dump)
            p, hitn = core.run_suspended(harness.cli(binary, dk, coin, cbname, dump), {"RAYON_NUM_THREADS": "2", "RBP_VERIF_JITTER": "3"}, log,
                                         pauses=(0.05,), while_stopped=damage, timeout=300)
            if p.timed_out:
                raise Inconclusive("watchdog fired (mid-run fault)")
            counters["runs"] += 1
            counters["midrun_faults"] = counters.get("midrun_faults", 0) + 1
            ev = harness.read_events(log)
            if hitn:
                counters["midrun_faults_hit_live_run"] = counters.get("midrun_faults_hit_live_run", 0) + 1
            what = "%s, %s of %s while the run was suspended after its first blocks (%d blocks, 3 files)" % (cbname, action, os.path.basename(victim), nblocks)
            vv = []
            # the later file certainly had not been read completely when the run was stopped after a handful of blocks
            _judge_failure(p, dump, ref, what, log, vv, bool(hitn) and action in ("unlink-later", "shrink-later") and _not_yet_opened(ev, victim))
            v.extend(vv)
            shapes.add("%s|midrun-%s|%s|%s" % (cbname, action, "hit" if hitn else "too-late", "fail" if p.rc else "exit0"))
            shutil.rmtree(dk, ignore_errors=True)
    shutil.rmtree(work, ignore_errors=True)
    return {"evaluations": counters["runs"], "violations": v[:6], "counters": counters, "shapes": sorted(shapes),
            "sample": {"kind": "midrun:" + kind, "callback": cbname, "coin": coin, "runs": counters["runs"]}}


def _not_yet_opened(events, victim):
    """True when the hook log shows the first stop (the position of the first 'deliver') before any open of the victim file"""
    base = os.path.basename(victim)
    for e in events:
        if e["ev"] == "blk_open" and os.path.basename(e["path"]) == base:
            return False
        if e["ev"] == "deliver" and e["height"] >= 5:
            return True
    return True


# ------------------------------------------------------------------ the readers of stdout / stderr go away
def stdio_case(spec):
    """stdout / stderr are a pipe whose reader has left (`csvdump ... | head -n 1`, a dead log collector), /dev/full, or closed. Whatever
    the process then does - carry on, or stop - the exit status must tell the truth: 0 only with complete final-named output and no *.tmp; and no final-named file may hold partial content."""
    import subprocess
    coin, cbname = spec["coin"], spec["callback"]
    work = harness.fresh(os.path.join(spec["work"], "c%d" % spec["n"]))
    chain, d, kw, pl_index = prepare(spec, work)
    binary = core.build("release")
    ref = reference_run(binary, d, coin, cbname, work, None, None)
    v, counters, shapes = [], {"runs": 1}, set()
    dump = os.path.abspath(os.path.join(work, "o"))
    for mode in spec["modes"]:
        for verbosity in (0, 2):
            harness.fresh(dump)
            argv = harness.cli(binary, d, coin, cbname, dump, verbosity=verbosity)
            opened = []
            kwargs = {}
            for stream in (("stdout", "stderr") if mode.endswith("+stderr") else ("stdout",)):
                m = mode.split("+")[0]
                if m == "closed-pipe":
                    r, w = os.pipe()
                    os.close(r)
                    kwargs[stream] = w
                    opened.append(w)
                elif m == "dev-full":
                    fd = os.open("/dev/full", os.O_WRONLY)
                    kwargs[stream] = fd
                    opened.append(fd)
                elif m == "reader-leaves":
                    kwargs[stream] = subprocess.PIPE
            kwargs.setdefault("stderr", subprocess.DEVNULL)
            env = dict(os.environ, RUST_BACKTRACE="0")
            env.pop("RUST_LOG", None)
            pr = subprocess.Popen(argv, env=env, **kwargs)
            for fd in opened:
                os.close(fd)
            if mode.split("+")[0] == "reader-leaves":
                for stream in ("stdout", "stderr"):
                    f = getattr(pr, stream)
                    if f is not None:
                        f.readline()
                        f.close()
            try:
                rc = pr.wait(timeout=300)
            except subprocess.TimeoutExpired:
                pr.kill()
                raise Inconclusive("watchdog fired (%s)" % mode)
            counters["runs"] += 1
            counters["stdio_faults"] = counters.get("stdio_faults", 0) + 1
            what = "%s%s with %s as %s" % (cbname, " -vv" if verbosity else "", mode.split("+")[0], "stdout and stderr" if mode.endswith("+stderr") else "stdout")
            if rc == 0:
                v.extend(outcome(core.Proc(rc, "", "", False, 0), dump, ref, what))
            else:
                # a log line that cannot be written is neither an unreadable block nor a failed write to an output file: the statement
                # does not say what the exit status is then (today: a panic, possibly after the output was committed). What it does say
                # still holds: a final-named file never holds partial content.
                have = read_norm(dump)
                for name, t in have.items():
                    if is_final(name) and (name not in ref or ref[name] != t):
                        v.append(viol("partial-final-file", "exit %s and the final-named file %s differs from the complete output (%d bytes vs %s) (%s)" % (
                            rc, name, len(t), len(ref[name]) if name in ref else "no such file", what)))
                        break
            shapes.add("%s|stdio-%s|%s" % (cbname, mode, "exit0" if rc == 0 else "fail"))
    shutil.rmtree(work, ignore_errors=True)
    return {"evaluations": counters["runs"], "violations": v[:4], "counters": counters, "shapes": sorted(shapes),
            "sample": {"kind": "stdio", "callback": cbname, "coin": coin, "modes": spec["modes"]}}


def dispatch(spec):
    return {"input": input_case, "output": output_case, "clean": clean_case, "midrun": midrun_case, "stdio": stdio_case}[spec["case"]](spec)


def plan(chk):
    rng = chk.rng("plan")
    specs = []
    n = 0
    coins = list(COINS)
    for ci, cbname in enumerate(CALLBACKS):
        # input faults
        for rep in range(4 if chk.thorough else 1):
            for nfiles, rng_opt in ((1, (None, None)), (3, (None, None)), (3, (2, 4)), (2, (1, None))):
                n += 1
                specs.append(dict(case="input", callback=cbname, coin=coins[n % 8], seed=chk.seed + rep, chain="in-%d" % n, n=n, nfiles=nfiles, blocks=6,
                                  start=rng_opt[0], end=rng_opt[1], every_byte=chk.thorough, max_cuts=None if chk.thorough else 25, xor=(n % 2 == 0)))
        for rep in range(4 if chk.thorough else 2):
            n += 1
            specs.append(dict(case="clean", callback=cbname, coin=coins[n % 8], seed=chk.seed + rep, chain="clean-%d" % n, n=n, nfiles=1 + rep % 2,
                              blocks=[1, 6, 2, 9][rep], xor=False))
        # faults that hit many blocks at once, faults of one particular system call on the input files, files that change during the run
        for i, lost in enumerate([256, 255, 512] if not chk.thorough else [255, 256, 257, 511, 512, 768, 1024]):
            n += 1
            specs.append(dict(case="midrun", kind="bulk", callback=cbname, coin=coins[n % 8], seed=chk.seed, n=n, blocks_lost=lost,
                              start=(None if i % 2 == 0 else 7), end=(None if i % 3 else 20 + lost + 5)))
        for i in range(3 if chk.thorough else 1):
            n += 1
            specs.append(dict(case="midrun", kind="syscall", callback=cbname, coin=coins[n % 8], seed=chk.seed + i, n=n, blocks=12 + 6 * i,
                              assign=["round_robin", "contiguous", "random"][(ci + i) % 3], xor=(n % 2 == 0), max_k=None if chk.thorough else 10))
        n += 1
        specs.append(dict(case="midrun", kind="signal", callback=cbname, coin=coins[n % 8], seed=chk.seed, n=n, blocks=1500,
                          signals=["SIGINT", "SIGTERM", "SIGHUP"] + (["SIGQUIT", "SIGUSR1", "SIGPIPE"] if chk.thorough else [])))
        n += 1
        specs.append(dict(case="midrun", kind="vanish", callback=cbname, coin=coins[n % 8], seed=chk.seed, n=n, blocks=1500,
                          actions=["unlink-later", "shrink-later", "shrink-open"] * (3 if chk.thorough else 1)))
        n += 1
        specs.append(dict(case="stdio", callback=cbname, coin=coins[n % 8], seed=chk.seed, chain="stdio-%d" % n, n=n, nfiles=2, blocks=40 if chk.thorough else 12, xor=False,
                          modes=["closed-pipe", "dev-full", "reader-leaves", "closed-pipe+stderr", "reader-leaves+stderr", "dev-full+stderr"]))
        # output faults: small (<4 MB buffer) and large outputs
        for mb, faults in ((None, ["fsize", "inject", "kill"]), (110000, ["fsize", "inject", "kill"])):
            n += 1
            specs.append(dict(case="output", callback=cbname, coin=coins[n % 8], seed=chk.seed, chain="out-%d" % n, n=n, mb=mb, faults=faults,
                              max_k=None if chk.thorough else 8, both_errors=chk.thorough, random_kills=(150 if chk.thorough else 12) if mb else 0,
                              fractions=[i / 20 for i in range(1, 20)] if chk.thorough else [0.25, 0.6, 0.9]))
        if chk.thorough:
            for i in range(3):
                n += 1
                specs.append(dict(case="output", callback=cbname, coin=rng.choice(coins), seed=chk.seed + 10 + i, chain="out-%d" % n, n=n,
                                  mb=rng.choice([None, 30000, 60000, 150000]), faults=["fsize", "inject", "kill"], both_errors=True,
                                  fractions=[rng.random() for _ in range(15)]))
    return specs


def main():
    chk = core.Check("C10", level="fault_enumeration")
    core.build("release")
    core.ldbtool()
    specs = plan(chk)
    for sp in specs:
        sp["work"] = chk.workdir
    specs.sort(key=lambda s: -(s.get("mb") or 0))
    core.build("release")
    for res in core.parallel(dispatch, specs):
        chk.absorb(res)
    chk.finish(RULE, floor={"input_faults": 300, "input_faults:truncated": 200, "input_faults:offset-past-eof": 9, "input_faults:emptied": 6,
                            "input_faults:removed": 6, "fsize_faults": 40, "fsize_faults_hit_output": 10, "write_faults_hit": 12, "kill_points_hit": 30,
                            "trace_events": 30, "max_output_writes_in_one_run": 3, "bulk_faults": 9, "input_syscall_faults_hit": 20,
                            "midrun_faults_hit_live_run": 3, "stdio_faults": 30, "signals_sent_to_a_live_run": 6},
               assumptions=["SIGKILL 'at arbitrary times' is enumerated as SIGKILL at every syscall boundary that touches an output path",
                            "torn writes inside the kernel, power loss and fsync semantics are out of scope (not claimed by the property)",
                            "RLIMIT_FSIZE also limits LevelDB's own files: very small limits fail at index open (exit!=0, no output) — counted separately from faults that hit the output"],
               extra={"fault_space": "input: heights x {removed, emptied, truncation points, offset past EOF}; output: FSIZE grid, k-th write x {ENOSPC,EIO}, kill ordinals"})


def replay(spec):
    core.replay_case("C10", {"input": input_case, "output": output_case, "clean": clean_case, "midrun": midrun_case, "stdio": stdio_case}, spec)
