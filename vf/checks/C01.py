"""C01 — csvdump reproduces every on-disk block, tx, input and output field exactly."""
import os
import random
import shutil

from .. import core, gen, harness, datadir, model, oracles
from ..chain import COINS, COIN_NAMES, Tx, TxIn, TxOut, Block, ZERO32, genesis_block
from ..core import viol
from ..gen import rbytes
from ..ser import compact_width

RULE = ("shape classes {CompactSize boundary (tx/input/output count, scriptSig/scriptPubKey length, witness item count/length at "
        "0,1,0xfc,0xfd,0xfe and, thorough, 0xffff,0x10000,0x10001), segwit/legacy mixes, extreme u32/u64 field values, long chains, "
        "big scripts} x 8 coins x --verify on/off (x debug build for a subset): real csvdump run, the four CSV files compared "
        "byte-for-byte with the model's rendering of the logical chain (hash = sha256d(header), txid = sha256d(witness-stripped tx), "
        "lowercase hex, decimal integers, stored size prefix), file names and completion totals vs rows written. "
        "One long run (more than 2^16 blocks in one process, three blk files) is compared with the model as well: thresholds of anything a run accumulates. Half of the long / segwit / many-tx chains contain records longer than their block (slack inside the stored length prefix). distinct = (shape, dimension, CompactSize width hit, coin, verify, build) signatures")

BOUNDS_Q = [1, 0xFC, 0xFD, 0xFE]
BOUNDS_T = [1, 0xFC, 0xFD, 0xFE, 0xFFFF, 0x10000, 0x10001]
DIMS = ["ntx", "nin", "nout", "siglen", "spklen", "witcount", "witlen"]


def small_tx(rng, cb, segwit=False):
    return cb.spend_tx(1, outs=[cb.out(rng.choice(["p2pkh", "p2sh", "nonstd"]))], segwit=segwit)


def build_chain(spec):
    rng = random.Random("C01|%s|%s|%s" % (spec["seed"], spec["n"], spec["shape"]))
    coin = spec["coin"]
    use_gen = spec.get("genesis", False)
    cb = gen.ChainBuilder(rng, coin, genesis=use_gen)
    shape = spec["shape"]
    widths = set()
    if shape == "boundary":
        dim, val = spec["dim"], spec["val"]
        cb.add_block(n_tx=1)
        if dim == "ntx":
            # val transactions in one block (coinbase included)
            txs = [Tx(1, [TxIn(rbytes(rng, 32), i & 0xFFFFFFFF, b"", 0xFFFFFFFF)], [TxOut(i, b"\x51")], 0) for i in range(max(0, val - 1))]
            cb.add_block(txs=txs)
        elif dim == "nin":
            t = Tx(1, [TxIn(rbytes(rng, 32), i, rbytes(rng, rng.choice([0, 1])), i) for i in range(val)], [cb.out("p2pkh")], 0)
            cb.add_block(txs=[small_tx(rng, cb), t, small_tx(rng, cb)])
        elif dim == "nout":
            t = cb.spend_tx(1, outs=[TxOut(i, rng.choice([b"", b"\x51", b"\x6a\x01a"])) for i in range(val)])
            cb.add_block(txs=[small_tx(rng, cb), t, small_tx(rng, cb)])
        elif dim == "siglen":
            t = cb.spend_tx(2, outs=[cb.out("p2pkh")], segwit=False)
            t.ins[0].script_sig = rbytes(rng, val)
            t.ins[1].script_sig = b""
            t.invalidate()
            cb.add_block(txs=[t, small_tx(rng, cb)])
        elif dim == "spklen":
            t = cb.spend_tx(1, outs=[TxOut(5, b""), TxOut(7, rbytes(rng, val)), cb.out("p2sh")])
            cb.add_block(txs=[t, small_tx(rng, cb)])
        elif dim == "witcount":
            t = cb.spend_tx(2, outs=[cb.out("p2wpkh" if COINS[coin].bitcoin_rules else "p2pkh")], segwit=True)
            t.ins[0].witness = [rbytes(rng, rng.choice([0, 1, 2])) for _ in range(val)]
            t.ins[1].witness = []
            cb.add_block(txs=[small_tx(rng, cb, True), t, small_tx(rng, cb)])
        elif dim == "witlen":
            t = cb.spend_tx(1, outs=[cb.out("p2pkh")], segwit=True)
            t.ins[0].witness = [rbytes(rng, val), b"", rbytes(rng, 1)]
            cb.add_block(txs=[t, small_tx(rng, cb)])
        widths.add("%s:w%d" % (dim, compact_width(val)))
        cb.add_block(n_tx=2)
    elif shape == "segwit":
        for _ in range(rng.randint(3, 8)):
            txs = []
            for _ in range(rng.randint(1, 8)):
                sw = rng.random() < 0.6
                t = cb.spend_tx(rng.randint(1, 4), segwit=sw)
                if sw:
                    for i in t.ins:
                        i.witness = [rbytes(rng, rng.choice([0, 1, 20, 32, 33, 64, 72, 73, 107, 252, 253, 300])) for _ in range(rng.choice([0, 0, 1, 2, 2, 3, 10]))]
                txs.append(t)
            cb.add_block(txs=txs)
    elif shape == "extreme":
        ext32 = [0, 1, 0x7FFFFFFF, 0x80000000, 0xFFFFFFFE, 0xFFFFFFFF]
        ext64 = [0, 1, 0x7FFFFFFFFFFFFFFF, 0x8000000000000000, 0xFFFFFFFFFFFFFFFF, 21 * 10**14]
        aux = COINS[coin].auxpow
        for _ in range(rng.randint(3, 6)):
            txs = []
            for _ in range(rng.randint(1, 4)):
                t = Tx(rng.choice(ext32 + [rng.getrandbits(32)]),
                       [TxIn(rng.choice([ZERO32, b"\xff" * 32, rbytes(rng, 32)]), rng.choice(ext32 + [rng.getrandbits(32)]), rbytes(rng, rng.randint(0, 5)),
                             rng.choice(ext32 + [rng.getrandbits(32)])) for _ in range(rng.randint(1, 3))],
                       [TxOut(rng.choice(ext64 + [rng.getrandbits(64)]), gen.std_script(rng, coin)) for _ in range(rng.randint(1, 3))],
                       rng.choice(ext32 + [rng.getrandbits(32)]))
                if len(t.ins) == 1 and t.is_coinbase():
                    t.ins[0].prev_index = 0
                txs.append(t)
            ver = rng.choice(ext32 + [rng.getrandbits(32)])
            if aux is not None and ver >= aux:
                ver = rng.choice([0, 1, aux - 1])
            cb.add_block(txs=txs, version=ver, time=rng.choice(ext32 + [rng.getrandbits(32)]), bits=rng.choice(ext32 + [rng.getrandbits(32)]),
                         nonce=rng.choice(ext32 + [rng.getrandbits(32)]))
    elif shape == "long":
        for _ in range(spec.get("blocks", 400)):
            cb.add_block(n_tx=rng.choice([0, 0, 1, 2]))
    elif shape == "bigscripts":
        for _ in range(3):
            t = cb.spend_tx(2, outs=[TxOut(1, rbytes(rng, rng.choice([10000, 30000, 70000]))), cb.out("p2pkh"), TxOut(2, b"\x6a" + gen.push(rbytes(rng, 20000)))], segwit=True)
            t.ins[0].script_sig = rbytes(rng, rng.choice([9999, 40000]))
            t.ins[1].witness = [rbytes(rng, 50000), rbytes(rng, 3)]
            t.invalidate()
            cb.add_block(txs=[t, small_tx(rng, cb)])
    elif shape == "manytx":
        for _ in range(3):
            cb.add_block(n_tx=rng.randint(150, 600))
    chain = cb.chain()
    if shape in ("long", "segwit", "manytx") and spec["n"] % 2 == 0:
        # records longer than their block (the stored length prefix also covers bytes behind the block): blocksize is the stored
        # prefix, every other field is the block's
        gen.add_slack(rng, chain, coin, share=0.4)
    return chain, widths


def case(spec):
    coin = spec["coin"]
    chain, widths = build_chain(spec)
    work = harness.fresh(os.path.join(spec["work"], "c%d" % spec["n"]))
    d = os.path.join(work, "d")
    if spec["n"] % 4 == 3 and len(chain) >= 3:
        # field fidelity must not depend on the physical layout or on obfuscation
        from .. import layouts
        lrng = random.Random("C01layout|%s" % spec["n"])
        kw, _desc, _ = layouts.make_layout(lrng, chain, coin, assign=lrng.choice(["round_robin", "random", "reversed"]), nfiles=lrng.randint(2, 3))
        datadir.write_datadir(d, COINS[coin], xor_key=bytes(lrng.randrange(1, 256) for _ in range(lrng.choice([8, 5]))), **kw)
    else:
        datadir.write_datadir(d, COINS[coin], harness.simple_layout(chain))
    binary = core.build(spec.get("profile", "release"))
    verify = spec.get("verify", False)
    real_genesis = chain[0][1].hash_hex == COINS[coin].genesis_hash
    start = None
    if verify and not real_genesis:
        start = 1
    dump = harness.fresh(os.path.join(work, "o"))
    p = harness.run_cb(binary, d, coin, "csvdump", dump, start, None, verify=verify, timeout=900)
    bad = oracles.check_csvdump(p, dump, chain, coin, start or 0, None)
    rows = sum(len(b.txs) + sum(len(t.ins) + len(t.outs) for t in b.txs) + 1 for _, b in chain)
    v = [viol(sig, "%s [shape=%s %s coin=%s verify=%s build=%s]" % (det, spec["shape"], spec.get("dim", ""), coin, verify, spec.get("profile", "release"))) for sig, det in bad]
    shutil.rmtree(work, ignore_errors=True)
    shape = "%s|%s|%s|%s|v%d|%s" % (spec["shape"], spec.get("dim", "-"), ",".join(sorted(widths)) or "-", coin, verify, spec.get("profile", "release"))
    return {"evaluations": 1, "violations": v, "shapes": [shape], "counters": {"runs": 1, "rows_compared": rows, "runs:verify" if verify else "runs:noverify": 1},
            "sample": {"shape": spec["shape"], "dim": spec.get("dim"), "val": spec.get("val"), "coin": coin, "verify": verify, "blocks": len(chain), "rows": rows}}


def plan(chk):
    rng = chk.rng("plan")
    specs = []
    n = 0

    def add(**kw):
        nonlocal n
        n += 1
        kw.setdefault("coin", COIN_NAMES[n % 8])
        kw.setdefault("verify", n % 2 == 0)
        kw.setdefault("genesis", n % 3 == 0)
        kw.setdefault("seed", chk.seed)
        specs.append(dict(case="case", n=n, **kw))

    bounds = BOUNDS_T if chk.thorough else BOUNDS_Q
    for dim in DIMS:
        for val in bounds + ([0] if dim in ("siglen", "spklen", "witcount", "witlen") else []):
            reps = 8 if chk.thorough and val <= 0xFE else 1
            for r in range(reps):
                add(shape="boundary", dim=dim, val=val, **({"coin": COIN_NAMES[r]} if reps == 8 else {}))
    if not chk.thorough:
        # both sides of the 3-byte -> 5-byte CompactSize boundary for every dimension in quick as well
        for dim in DIMS:
            add(shape="boundary", dim=dim, val=0xFFFF)
            add(shape="boundary", dim=dim, val=0x10000)
        add(shape="boundary", dim="spklen", val=0x10001)
        add(shape="boundary", dim="nout", val=0x10001)      # output index 65536 (beyond u16) is printed
        add(shape="boundary", dim="nin", val=0x10001)
    for coin in COIN_NAMES:
        for verify in (False, True):
            add(shape="segwit", coin=coin, verify=verify)
            add(shape="extreme", coin=coin, verify=verify)
    for i in range(16 if chk.thorough else 4):
        add(shape="long", blocks=3000 if (chk.thorough and i < 4) else 400)
        add(shape="bigscripts")
        add(shape="manytx")
    for i in range(40 if chk.thorough else 6):
        add(shape=rng.choice(["segwit", "extreme"]), profile="debug")
    for i, dim in enumerate(DIMS):
        add(shape="boundary", dim=dim, val=0xFD, profile="debug")
    if chk.thorough:
        for i in range(600):
            add(shape=rng.choice(["segwit", "extreme", "segwit", "extreme", "manytx"]), seed=chk.seed + 1000 + i)
    return specs


def _dispatch(spec):
    from .. import longrun
    return longrun.long_case(spec) if spec.get("case") == "long" else case(spec)


def main():
    chk = core.Check("C01")
    core.build("release")
    core.build("debug")
    core.ldbtool()
    specs = plan(chk)
    for sp in specs:
        sp["work"] = chk.workdir
    # large cases first so the pool stays busy
    specs.sort(key=lambda s: -(s.get("val", 0) if s["shape"] == "boundary" else (50000 if s["shape"] in ("long", "manytx") else 0)))
    specs.insert(0, dict(case="long", callback="csvdump", coin=COIN_NAMES[(chk.seed + 0) % 8], seed=chk.seed, n=0, blocks=(140000 if chk.thorough else 70000), verify=bool(chk.seed % 2), work=chk.workdir))
    specs[0]["shape"] = "long-run"
    for res in core.parallel(_dispatch, specs):
        chk.absorb(res)
    chk.finish(RULE, floor={"runs": 60, "rows_compared": 50000, "runs:verify": 20, "_shapes": 40},
               assumptions=["well-formed chains only: canonical CompactSize encodings, >=1 input and >=1 output per transaction",
                            "with --verify on coins whose genesis block cannot be rebuilt offline the run starts at height 1",
                            "address column follows the script reference of C05/C06 (only pinned script shapes are generated here)"])


def replay(spec):
    from .. import longrun
    core.replay_case("C01", {"case": case, "long": longrun.long_case}, spec)
