"""C11 — XOR-obfuscated block files yield the same result as plaintext ones."""
import hashlib
import os
import random
import struct
import shutil

from .. import core, harness, datadir, model, oracles, layouts
from ..chain import COINS, COIN_NAMES
from ..core import viol
from ..gen import rbytes

RULE = ("for each (chain, layout, key): the plaintext data directory and a copy whose blk files are XOR-ed with the key repeating from "
        "file offset 0 (xor.dat = key) are both run through csvdump (and one set-valued callback); outputs must be byte-identical to each "
        "other and to the model. Keys: every length 1..64 (quick: 1,2,3,5,7,8,9,16,31,33,64) x {all-zero, random, 0xff.., single-bit}; "
        "layouts from C03 chosen so that offsets are not multiples of the key length, blocks exceed the 32 KiB buffer, seeks go backward, "
        "forward within and beyond the buffer and offsets exceed 4 GiB (seek kinds counted from the H2 fetch log). "
        "In symlinked layouts xor.dat is a link (absolute / relative) to a key file of another name. distinct = (key length, key class, layout assignment, gaps, sparse) signatures")

QUICK_LENS = [1, 2, 3, 5, 7, 8, 9, 16, 31, 33, 64]


def make_key(rng, n, cls, magic=b"\xf9\xbe\xb4\xd9"):
    if cls == "zero":
        return bytes(n)
    if cls == "ff":
        return b"\xff" * n
    if cls == "onebit":
        k = bytearray(n)
        k[rng.randrange(n)] = 1 << rng.randrange(8)
        return bytes(k)
    if cls in ("zeroprefix", "zerosuffix", "zeromiddle"):
        # a run of zero bytes inside a non-zero key: the bytes under the run stay plaintext (e.g. the first magic of every file)
        if n == 1:
            return bytes([rng.randrange(1, 256)])
        z = n // 2 if n < 8 else rng.choice([4, 4, n // 2, n - 1])
        body = bytes(rng.randrange(1, 256) for _ in range(n - z))
        if cls == "zeroprefix":
            return bytes(z) + body
        if cls == "zerosuffix":
            return body + bytes(z)
        cut = rng.randrange(1, len(body)) if len(body) > 1 else 0
        return body[:cut] + bytes(z) + body[cut:]
    if cls == "magic":
        # the key starts with the coin's magic: every obfuscated file starts with zero bytes
        return (magic + bytes(rng.randrange(1, 256) for _ in range(n)))[:n]
    k = rbytes(rng, n)
    return k if any(k) else b"\x01" * n


def case(spec):
    coin = spec["coin"]
    crng = random.Random("C11chain|%s|%s" % (spec["chain_seed"], coin))
    chain = layouts.layout_chain(crng, coin, spec.get("blocks", 12), big_every=4)
    lrng = random.Random("C11layout|%s|%s" % (spec["chain_seed"], spec["n"]))
    kw, desc, pl_index = layouts.make_layout(lrng, chain, coin, **spec["layout"])
    key = make_key(lrng, spec["keylen"], spec["keycls"], struct.pack("<I", COINS[spec["coin"]].magic))
    work = harness.fresh(os.path.join(spec["work"], "c%d" % spec["n"]))
    binary = core.build(spec.get("profile", "release"))
    v, counters = [], {"runs": 0}
    digests = {}
    sizes = {h: len(b.ser()) for h, b in chain}
    for variant in ("plain", "xor"):
        d = os.path.join(work, variant)
        datadir.write_datadir(d, COINS[coin], xor_key=(key if variant == "xor" else None), **kw)
        dump = harness.fresh(os.path.join(work, "o-" + variant))
        log = os.path.join(work, "ev-%s.jsonl" % variant)
        p = harness.run_cb(binary, d, coin, "csvdump", dump, log=log, timeout=600)
        counters["runs"] += 1
        bad = oracles.check_csvdump(p, dump, chain, coin)
        v.extend(viol("%s:%s" % (variant, sig), "%s [key=%s (%d bytes, %s) layout=%s coin=%s]" % (det, key[:16].hex(), len(key), spec["keycls"], desc, coin)) for sig, det in bad)
        if p.rc == 0:
            got = harness.read_dump(dump)
            digests[variant] = hashlib.sha256("".join(got[k] for k in sorted(got)).encode()).hexdigest()
        if variant == "xor":
            ev = harness.read_events(log)
            for k, n in layouts.classify_seeks(ev, kw["names"], sizes).items():
                counters["xor_seek:" + k] = n
            offs = [pl.offset for pl in kw["placements"] if pl.indexed]
            counters["offsets_not_multiple_of_keylen"] = sum(1 for o in offs if (o - 4) % len(key))
            counters["blocks_larger_than_buffer"] = sum(1 for s in sizes.values() if s > 32768)
            if any(o > (1 << 32) for o in offs):
                counters["xor_offsets_beyond_4GiB"] = 1
            if spec.get("also"):
                dump2 = harness.fresh(os.path.join(work, "o2"))
                p2 = harness.run_cb(binary, d, coin, spec["also"], dump2)
                counters["runs"] += 1
                chk = oracles.check_unspent if spec["also"] == "unspentcsvdump" else oracles.check_balances
                v.extend(viol("xor:" + sig, "%s [key %d bytes %s]" % (det, len(key), spec["keycls"])) for sig, det in chk(p2, dump2, chain, coin))
    if len(digests) == 2 and digests["plain"] != digests["xor"]:
        v.append(viol("metamorphic:plain-vs-xor", "csvdump of the obfuscated directory differs from the plaintext one [key=%s layout=%s]" % (key.hex(), desc)))
    counters["pairs_compared"] = 1 if len(digests) == 2 else 0
    shutil.rmtree(work, ignore_errors=True)
    shape = "k%d|%s|%s|%s|sp%d" % (len(key), spec["keycls"], desc["assign"], desc["gaps"], desc["sparse"])
    return {"evaluations": counters["runs"], "violations": v, "counters": counters, "shapes": [shape],
            "sample": {"coin": coin, "key": key.hex(), "layout": desc}}


def plan(chk):
    rng = chk.rng("plan")
    lens = list(range(1, 65)) if chk.thorough else QUICK_LENS
    specs = []
    n = 0
    lay_pool = [dict(assign="single", gaps="random"), dict(assign="reversed", nfiles=2, gaps="zeros"), dict(assign="random", nfiles=3, gaps="mixed"),
                dict(assign="round_robin", nfiles=3, gaps="foreign"), dict(assign="interleaved2", nfiles=4, gaps="random", file_order="shuffled"),
                dict(assign="contiguous", nfiles=2, gaps="unindexed", sparse=True), dict(assign="single", gaps="random", sparse=True, file_order="desc"),
                # files as Bitcoin Core writes them: the first block's magic is the first thing in the file
                dict(assign="contiguous", nfiles=2, gaps="none"), dict(assign="round_robin", nfiles=3, gaps="none", file_order="shuffled"),
                # blk files that are symbolic links into another directory (xor.dat stays in the data directory)
                dict(assign="contiguous", nfiles=3, gaps="zeros", symlinks=True), dict(assign="random", nfiles=2, gaps="none", symlinks=True)]
    for ln in lens:
        for cls in ("random", "zero", "ff") + (("onebit", "zeroprefix", "zerosuffix", "zeromiddle", "magic") if chk.thorough or ln in (4, 8, 64)
                                               else (("zeroprefix", "zeromiddle", "magic", "zerosuffix")[ln % 4],)):
            n += 1
            L = lay_pool[n % len(lay_pool)] if cls not in ("zeroprefix", "magic") or n % 2 else lay_pool[-3 - (n // 2) % 2]
            specs.append(dict(case="case", coin=COIN_NAMES[n % 8], chain_seed=chk.seed * 100 + n % 5, n=n, keylen=ln, keycls=cls, layout=L,
                              also=("unspentcsvdump" if n % 4 == 0 else ("balances" if n % 4 == 2 else None)),
                              profile="debug" if n % 7 == 0 else "release"))
    if chk.thorough:
        for i in range(300):
            n += 1
            specs.append(dict(case="case", coin=rng.choice(COIN_NAMES), chain_seed=chk.seed * 100 + 50 + i, n=n, keylen=rng.randint(1, 64),
                              keycls=rng.choice(["random", "random", "onebit", "zeroprefix", "zerosuffix", "zeromiddle", "magic"]), layout=rng.choice(lay_pool), also=None, blocks=rng.choice([8, 12, 30])))
    return specs


def main():
    chk = core.Check("C11")
    core.build("release")
    core.build("debug")
    core.ldbtool()
    specs = plan(chk)
    for sp in specs:
        sp["work"] = chk.workdir
    for res in core.parallel(case, specs):
        chk.absorb(res)
    chk.finish(RULE, floor={"pairs_compared": 25, "xor_seek:backward_near": 1, "xor_seek:forward_beyond_buffer": 1, "xor_seek:forward_within_buffer": 1,
                            "xor_offsets_beyond_4GiB": 1, "offsets_not_multiple_of_keylen": 20, "blocks_larger_than_buffer": 20},
               assumptions=["xor.dat holds exactly the key bytes; an all-zero key leaves the files unchanged (as Bitcoin Core does)",
                            "holes of sparse files are never read (indexed blocks never overlap holes)"])


def replay(spec):
    core.replay_case("C11", {"case": case}, spec)
