"""C05 — Bitcoin/testnet3: every output script gets the reference type and address."""
from .. import core
from . import scriptcommon as sc

COINS_ = ["bitcoin", "testnet3"]
RULE = ("script families (canonical templates x random payloads; every one-byte substitution/truncation/extension of each template; "
        "all 256 leading opcodes x tails; witness version x program length grid; m x n x key-count x key-size multisig grid and shape "
        "variants; random token sequences; random bytes up to 10 kB) x {bitcoin,testnet3} pushed through the real script evaluator "
        "(guarded script-eval tool mode, release + debug builds); each verdict compared with the reference rule table and every "
        "printed address decoded by an independent Base58Check/Bech32(m) decoder; a sample is embedded in chains and observed "
        "black-box (csvdump address column, unspent dump, simplestats type table, opreturn). recur_far: 2^16+ distinct destinations "
        "evaluated in ONE process, then destinations from all over that history return, unchanged and in another role. "
        "Black-box: other spellings of the coin name are tried - refused is fine, accepted must mean the named coin. Key material: real curve points in every SEC1 form. distinct = (family, rule set, observed type, address present) signatures")


def plan(chk):
    units = sc.std_units(COINS_, chk.thorough, chk.seed, "release")
    units += sc.std_units(COINS_, False, chk.seed + 1, "debug", scale=0.15 if not chk.thorough else 1.0)
    # long evaluation history in ONE process: 2^16+ distinct destinations, then earlier ones return (same role and another role)
    for i, coin in enumerate(COINS_):
        units.append(dict(case="unit", family="recur_far", coin=coin, seed=chk.seed + i, profile="release", one_process=True,
                          pool=70000 if (chk.thorough or i == chk.seed % 2) else 20000))
    units.append(dict(case="unit", family="recur_far", coin=COINS_[(chk.seed + 1) % 2], seed=chk.seed + 5, profile="debug", one_process=True, pool=6000))
    n = 0
    for coin in COINS_:
        for i in range(6 if chk.thorough else 2):
            n += 1
            units.append({"case": "blackbox", "coin": coin, "seed": chk.seed * 100 + i, "n": n, "per_unit": 120,
                          "units": [dict(family=f, seed=chk.seed + i, n=300) for f in ("templates", "witness", "multisig", "leading", "random_tokens")]
                          + [dict(family="mutations", seed=chk.seed + i, full=False)]})
    return units


def main():
    chk = core.Check("C05")
    core.build("release")
    core.build("debug")
    core.ldbtool()
    units = plan(chk)
    for u in units:
        u["work"] = chk.workdir
    for res in core.parallel(sc.dispatch, units):
        chk.absorb(res)
    chk.finish(RULE, floor={"scripts:release": 50000, "scripts:debug": 5000, "blackbox_runs": 8, "addresses_decoded": 1000},
               assumptions=["reference rules are the reading of the statement documented in DESIGN.md §2; two multisig look-alike shapes "
                            "are unconstrained in type (address must still be absent)",
                            "the script-eval tool mode calls the same eval_from_bytes as the pipeline; black-box sample confirms agreement"])


def replay(spec):
    core.replay_case("C05", {"unit": sc.unit_case, "blackbox": sc.blackbox_case}, spec)
