"""C06 — fork coins: scripts are tokenised by Bitcoin push rules and typed by template."""
from .. import core
from ..chain import FORK_COINS
from . import scriptcommon as sc

RULE = ("C05 families plus fork-specific ones (every template x every push form for every data slot with lengths on both sides of "
        "75/76, 255/256, 65535/65536; zero-length pushes; truncated length bytes and payloads at every position; NOP insertion at every "
        "token boundary; wrong/missing/extra tokens; PUSHDATA edge cases) x the 6 fork coins, through the real evaluator (release + "
        "debug); verdict compared with the push-rule tokenizer + template reference (version bytes 0x34,0x30,0x1e,0x32,0x82,0x35 from the "
        "property), no Error pattern, no panic; addresses decoded independently; black-box sample through csvdump/unspent/simplestats/opreturn. "
        "recur_far: 2^16+ distinct destinations evaluated in ONE process, then destinations from all over that history return, unchanged and in another role. Key material: half of all keys are real secp256k1 points in compressed, uncompressed and hybrid (06/07) form, plus hybrid prefixes with the wrong parity. distinct = (family, observed type, address present) signatures")


def plan(chk):
    units = []
    coins = FORK_COINS
    # heavy generic families are split over the coins (every coin gets every fork-specific family)
    for i, coin in enumerate(coins):
        units += [dict(case="unit", family="fork_templates", coin=coin, seed=chk.seed, profile="release", big=chk.thorough)]
        units += [dict(case="unit", family="fork_templates", coin=coin, seed=chk.seed + 1, profile="debug", big=False)]
        units += sc.std_units([coin], chk.thorough, chk.seed + i, "release", scale=0.4)
        # long evaluation history in one process (2^16+ distinct destinations on two coins, 6000 on the others), then old ones return
        units += [dict(case="unit", family="recur_far", coin=coin, seed=chk.seed + i, profile="release", one_process=True,
                       pool=(70000 if (chk.thorough or i == chk.seed % len(coins) or i == (chk.seed + 3) % len(coins)) else 6000))]
        if i == (chk.seed + 1) % len(coins) or chk.thorough:
            units += [dict(case="unit", family="recur_far", coin=coin, seed=chk.seed + i, profile="debug", one_process=True, pool=6000)]
    units += sc.std_units(coins[:2] if not chk.thorough else coins, False, chk.seed + 7, "debug", scale=0.1)
    n = 0
    for coin in coins:
        for i in range(3 if chk.thorough else 1):
            n += 1
            units.append({"case": "blackbox", "coin": coin, "seed": chk.seed * 100 + i, "n": n, "per_unit": 150,
                          "units": [dict(family=f, seed=chk.seed + i, n=300) for f in ("templates", "fork_templates", "multisig", "random_tokens")]})
    return units


def main():
    chk = core.Check("C06")
    core.build("release")
    core.build("debug")
    core.ldbtool()
    units = plan(chk)
    for u in units:
        u["work"] = chk.workdir
    for res in core.parallel(sc.dispatch, units):
        chk.absorb(res)
    chk.finish(RULE, floor={"scripts:release": 50000, "scripts:debug": 5000, "blackbox_runs": 6, "addresses_decoded": 1000},
               assumptions=["reference = Bitcoin push-rule tokenizer + the five templates of the statement, no-ops dropped, data slot = any non-empty push",
                            "P2SH uses version byte 0x05 on every fork coin (statement)"])


def replay(spec):
    core.replay_case("C06", {"unit": sc.unit_case, "blackbox": sc.blackbox_case}, spec)
