"""Independent serialisation primitives (no code shared with the repo)."""
import hashlib
import struct


def sha256d(b: bytes) -> bytes:
    return hashlib.sha256(hashlib.sha256(b).digest()).digest()


def hash160(b: bytes) -> bytes:
    return hashlib.new("ripemd160", hashlib.sha256(b).digest()).digest()


def rhex(b: bytes) -> str:
    """Display form of a hash (byte-reversed lowercase hex)."""
    return b[::-1].hex()


def compact_size(n: int) -> bytes:
    if n < 0xFD:
        return bytes([n])
    if n <= 0xFFFF:
        return b"\xfd" + struct.pack("<H", n)
    if n <= 0xFFFFFFFF:
        return b"\xfe" + struct.pack("<I", n)
    return b"\xff" + struct.pack("<Q", n)


def compact_width(n: int) -> int:
    return len(compact_size(n))


def core_varint(n: int) -> bytes:
    """Bitcoin Core's MSB base-128 VarInt (serialize.h WriteVarInt)."""
    tmp = []
    while True:
        tmp.append((n & 0x7F) | (0x80 if tmp else 0x00))
        if n <= 0x7F:
            break
        n = (n >> 7) - 1
    return bytes(reversed(tmp))


def core_varint_decode(b: bytes, pos: int = 0):
    n = 0
    while True:
        ch = b[pos]
        pos += 1
        n = (n << 7) | (ch & 0x7F)
        if ch & 0x80:
            n += 1
        else:
            return n, pos


# ---------------------------------------------------------------- base58check
_B58 = "123456789ABCDEFGHJKLMNPQRSTUVWXYZabcdefghijkmnopqrstuvwxyz"
_B58_IDX = {c: i for i, c in enumerate(_B58)}


def b58encode(b: bytes) -> str:
    n = int.from_bytes(b, "big")
    # peel off 58**32 at a time (keeps the number of big-integer divisions low for multi-kB payloads)
    big = 58 ** 32
    groups = []
    while n > 0:
        n, r = divmod(n, big)
        groups.append(r)
    out = []
    for gi, g in enumerate(groups):
        digits = []
        for _ in range(32):
            g, r = divmod(g, 58)
            digits.append(_B58[r])
        out.append("".join(reversed(digits)))
    s = "".join(reversed(out)).lstrip("1") if groups else ""
    pad = len(b) - len(b.lstrip(b"\0"))
    return "1" * pad + s


def b58decode(s: str) -> bytes:
    n = 0
    big = 58 ** 32
    for i in range(0, len(s), 32):
        part = s[i:i + 32]
        v = 0
        for c in part:
            v = v * 58 + _B58_IDX[c]  # KeyError -> invalid
        n = n * (big if len(part) == 32 else 58 ** len(part)) + v
    pad = len(s) - len(s.lstrip("1"))
    body = n.to_bytes((n.bit_length() + 7) // 8, "big") if n else b""
    return b"\0" * pad + body


def b58check_encode(payload: bytes) -> str:
    return b58encode(payload + sha256d(payload)[:4])


def b58check_decode(s: str) -> bytes:
    """Returns payload (version byte(s) + data) or raises ValueError."""
    try:
        raw = b58decode(s)
    except KeyError:
        raise ValueError("bad base58 char")
    if len(raw) < 5:
        raise ValueError("too short")
    payload, chk = raw[:-4], raw[-4:]
    if sha256d(payload)[:4] != chk:
        raise ValueError("bad checksum")
    return payload


# ---------------------------------------------------------------- bech32 / bech32m (BIP173 / BIP350)
_BC = "qpzry9x8gf2tvdw0s3jn54khce6mua7l"
_BECH32_CONST = 1
_BECH32M_CONST = 0x2BC830A3


def _polymod(values):
    gen = [0x3B6A57B2, 0x26508E6D, 0x1EA119FA, 0x3D4233DD, 0x2A1462B3]
    chk = 1
    for v in values:
        b = chk >> 25
        chk = (chk & 0x1FFFFFF) << 5 ^ v
        for i in range(5):
            chk ^= gen[i] if ((b >> i) & 1) else 0
    return chk


def _hrp_expand(hrp):
    return [ord(x) >> 5 for x in hrp] + [0] + [ord(x) & 31 for x in hrp]


def _convertbits(data, frombits, tobits, pad=True):
    acc = 0
    bits = 0
    ret = []
    maxv = (1 << tobits) - 1
    for value in data:
        acc = (acc << frombits) | value
        bits += frombits
        while bits >= tobits:
            bits -= tobits
            ret.append((acc >> bits) & maxv)
    if pad:
        if bits:
            ret.append((acc << (tobits - bits)) & maxv)
    elif bits >= frombits or ((acc << (tobits - bits)) & maxv):
        return None
    return ret


def segwit_encode(hrp: str, witver: int, prog: bytes) -> str:
    const = _BECH32_CONST if witver == 0 else _BECH32M_CONST
    data = [witver] + _convertbits(prog, 8, 5)
    values = _hrp_expand(hrp) + data
    pm = _polymod(values + [0] * 6) ^ const
    chk = [(pm >> 5 * (5 - i)) & 31 for i in range(6)]
    return hrp + "1" + "".join(_BC[d] for d in data + chk)


def segwit_decode(addr: str):
    """Returns (hrp, witver, program) or raises ValueError. Checks the BIP350 checksum rule."""
    if addr.lower() != addr and addr.upper() != addr:
        raise ValueError("mixed case")
    addr = addr.lower()
    pos = addr.rfind("1")
    if pos < 1 or pos + 7 > len(addr):
        raise ValueError("bad separator")
    hrp = addr[:pos]
    try:
        data = [_BC.index(c) for c in addr[pos + 1:]]
    except ValueError:
        raise ValueError("bad char")
    const = _polymod(_hrp_expand(hrp) + data)
    witver = data[0]
    if witver > 16:
        raise ValueError("bad version")
    want = _BECH32_CONST if witver == 0 else _BECH32M_CONST
    if const != want:
        raise ValueError("bad checksum / wrong bech32 variant")
    prog = _convertbits(data[1:-6], 5, 8, False)
    if prog is None:
        raise ValueError("bad padding")
    return hrp, witver, bytes(prog)
