"""Physical layout generator: one logical chain -> many data directories that must all read back identically."""
import os
import struct

from .chain import COINS, Block, ZERO32
from .datadir import Placement, HeaderOnly, ACTIVE, VALID_TREE, write_datadir, default_name
from .gen import rbytes, ChainBuilder, coinbase_tx
from .ser import core_varint

ASSIGN = ["single", "contiguous", "round_robin", "random", "reversed", "interleaved2", "one_per_file"]
GAPS = ["none", "zeros", "random", "foreign", "unindexed", "mixed"]
NUMBERING = ["seq", "sparse", "huge"]
PADS = [5, 0, 8, 1]


def foreign_block(rng, coin):
    """A real-looking block of another chain (different magic), never indexed."""
    cb = ChainBuilder(rng, coin)
    b = cb.add_block(n_tx=rng.randint(0, 2))
    return b


def make_layout(rng, chain, coin, assign="contiguous", nfiles=3, gaps="none", numbering="seq", pad=5, sparse=False,
                extras=False, index_style=None, file_order="asc", symlinks=False):
    """Returns kwargs for write_datadir plus a description. chain: list of (height, Block)."""
    coin = COINS[coin] if isinstance(coin, str) else coin
    n = len(chain)
    nfiles = max(1, min(nfiles, n)) if assign != "single" else 1
    # logical file index per block
    if assign == "single":
        fidx = [0] * n
    elif assign == "contiguous" or assign == "reversed":
        per = (n + nfiles - 1) // nfiles
        fidx = [i // per for i in range(n)]
    elif assign == "round_robin":
        fidx = [i % nfiles for i in range(n)]
    elif assign == "random":
        fidx = [rng.randrange(nfiles) for _ in range(n)]
    elif assign == "interleaved2":
        # pairs of files interleaved height by height, pairs contiguous
        pairs = max(1, nfiles // 2)
        per = (n + pairs - 1) // pairs
        fidx = [2 * (i // per) + (i % 2) for i in range(n)]
    elif assign == "one_per_file":
        fidx = list(range(n))
    else:
        raise KeyError(assign)
    used = sorted(set(fidx))
    # file numbers
    if numbering == "seq":
        base = rng.choice([0, 0, 1, 7])
        fnum = {f: base + k for k, f in enumerate(used)}
    elif numbering == "sparse":
        nums = sorted(rng.sample(range(0, 100000), len(used)))
        fnum = dict(zip(used, nums))
    else:
        cands = [2**64 - 1, 2**63, 2**32, 2**32 - 1, 99999, 100000, 2**56 + 5, 16511, 16512, 127, 128]
        extra = [rng.getrandbits(rng.choice([20, 40, 63])) for _ in range(len(used))]
        nums = list(dict.fromkeys(cands + extra))[:len(used)]
        rng.shuffle(nums)
        fnum = dict(zip(used, nums))
    names = {}
    for f in used:
        p = pad if not isinstance(pad, list) else rng.choice(pad)
        names[fnum[f]] = default_name(fnum[f], p)
    # physical order inside each file
    placements = []
    order = {}
    per_file = {}
    for i, (h, b) in enumerate(chain):
        per_file.setdefault(fidx[i], []).append(i)
    magic_other = struct.pack("<I", 0xDEADBEEF)
    for f, idxs in per_file.items():
        phys = list(idxs)
        if assign == "reversed":
            phys.reverse()
        elif assign == "random" or file_order == "shuffled":
            rng.shuffle(phys)
        elif file_order == "desc":
            phys.reverse()
        per_file[f] = phys
    pl_index = {}
    for f in used:
        order[fnum[f]] = []
        pos_in_file = 0
        for i in per_file[f]:
            h, b = chain[i]
            g = gaps if gaps != "mixed" else rng.choice(GAPS[:-1])
            gap = b""
            if g == "zeros":
                gap = bytes(rng.choice([1, 7, 100, 40000]))
            elif g == "random":
                gap = rbytes(rng, rng.choice([1, 3, 9, 200, 33000]))
            elif g == "foreign":
                fb = foreign_block(rng, coin).ser()
                gap = magic_other + struct.pack("<I", len(fb)) + fb
            elif g == "unindexed":
                ub = foreign_block(rng, coin)
                up = Placement(ub, 0, file=fnum[f], indexed=False)
                placements.append(up)
                order[fnum[f]].append(len(placements) - 1)
            p = Placement(b, h, file=fnum[f], status=ACTIVE, gap=gap)
            placements.append(p)
            pl_index[i] = p
            order[fnum[f]].append(len(placements) - 1)
            pos_in_file += 1
    if sparse:
        # move the physically last block of up to two files beyond 4 GiB (sparse file)
        for f in used[:2]:
            last = placements[order[fnum[f]][-1]]
            last.at = rng.choice([4 << 30, (4 << 30) + 12345, (5 << 30) + 7, (1 << 32) + 8])
            last.gap = b""
    extra_keys, extra_files = [], []
    header_only = []
    if extras:
        # other keys Bitcoin Core stores in the block index database
        for f in list(names)[:5]:
            extra_keys.append((b"f" + struct.pack("<I", f & 0xFFFFFFFF), core_varint(10) + core_varint(123456) + core_varint(0) + core_varint(0) + core_varint(5) + core_varint(1500000000) + core_varint(1500009999)))
        extra_keys.append((b"l", struct.pack("<I", 3)))
        extra_keys.append((b"R", b"\x01"))
        extra_keys.append((b"F" + b"\x07txindex", b"\x30"))
        extra_keys.append((b"t" + rbytes(rng, 32), core_varint(0) + core_varint(8) + core_varint(81)))
        extra_keys.append((b"B", rbytes(rng, 32)))
        extra_keys.append((b"\x00obfuscate_key", b"\x08" + rbytes(rng, 8)))
        unused = max(names) + 1 if max(names) < 2**64 - 1 else 424242
        while unused in names:
            unused += 1
        extra_files = [("rev00000.dat", rbytes(rng, 100)), ("blkindex.dat", rbytes(rng, 50)), ("blk.dat", rbytes(rng, 10)),
                       ("blkabc.dat", b"x"), ("blk-1.dat", b"y"), ("blk00009.dat.bak", b"z"), ("README", b"hi"),
                       (default_name(unused, 5), rbytes(rng, 300)), ("subdir", None)]
        dnum = unused + 1
        while dnum in names:
            dnum += 1
        extra_files.append((default_name(dnum, 5), None))  # a directory named like a blk file
        # symbolic links that lead nowhere: an archive disk that is gone, a relative link, a loop - named by no record
        lnum = dnum + 1
        while lnum in names:
            lnum += 1
        extra_files.append((default_name(lnum, 5), ("symlink", "/nonexistent-archive-disk/blocks/" + default_name(lnum, 5))))
        extra_files.append(("newest.dat", ("symlink", names[max(names)])))
        extra_files.append(("loop.dat", ("symlink", "loop.dat")))
    index_opts = dict(index_style or {})
    if rng.random() < 0.5:
        index_opts["vary_records"] = rng.getrandbits(32)     # record fields as nodes of different ages write them
    if rng.random() < 0.35 and len(chain) <= 3000:
        index_opts["churn"] = rng.getrandbits(32)            # the database has a history: rewritten keys, deleted keys, several sessions
    linked = sorted(rng.sample(sorted(names), max(1, len(names) // 2))) if symlinks else []
    desc = {"assign": assign, "files": len(used), "gaps": gaps, "numbering": numbering, "pad": pad, "sparse": sparse, "extras": extras,
            "index": index_opts, "file_order": file_order, "symlinked_files": len(linked)}
    kw = dict(placements=placements, names=names, extra_keys=extra_keys, extra_files=extra_files, index_opts=index_opts, order=order,
              header_only=header_only)
    if linked:
        kw["symlink_files"] = linked
    return kw, desc, pl_index


def add_harmless_competitors(rng, chain, coin, kw, count=3):
    """Adds index records that must never be delivered today: never-connected stale siblings WITH data whose hash sorts
    BEFORE the active block's (so the active record, inserted later, wins), stored as the physically last block of a
    blk file; failed blocks with data; header-only records. Returns the number of records added."""
    from .datadir import VALID_TRANSACTIONS, HAVE_DATA, FAILED_VALID, VALID_TREE
    coin = COINS[coin] if isinstance(coin, str) else coin
    byh = dict(chain)
    heights = [h for h, _ in chain[1:]]
    if not heights:
        return 0
    added = 0
    files = sorted(kw["order"])
    for h in rng.sample(heights, min(count, len(heights))):
        cb = ChainBuilder(rng, coin, start_height=h)
        cb.prev = byh[h - 1].hash if (h - 1) in byh else ZERO32
        b = cb.add_block(n_tx=rng.randint(0, 1), version=1)
        kind = rng.choice(["stale_before", "stale_before", "failed"])
        if kind == "stale_before":
            for _ in range(200000):
                if b.hash < byh[h].hash:
                    break
                b.nonce = (b.nonce + 1) & 0xFFFFFFFF
                b.invalidate()
            else:
                continue
            status = VALID_TRANSACTIONS | HAVE_DATA
        else:
            status = VALID_TRANSACTIONS | HAVE_DATA | FAILED_VALID
        f = rng.choice(files)
        kw["placements"].append(Placement(b, h, file=f, status=status))
        kw["order"][f].append(len(kw["placements"]) - 1)      # physically last in its file
        added += 1
    # a header-only record beyond the tip and one at an occupied height
    tip = chain[-1][0]
    for hh, prev in ((tip + 1, byh[tip].hash), (heights[0], byh[heights[0] - 1].hash if (heights[0] - 1) in byh else ZERO32)):
        hb = Block(rng.choice([1, 2, 4, 0x20000000]), prev, rng.getrandbits(31), 0x1D00FFFF, rng.getrandbits(32), [], merkle=rbytes(rng, 32))
        kw["header_only"].append(HeaderOnly(hb, hh, VALID_TREE, 0))
        added += 1
    return added


def add_bulk_headers(rng, chain, kw, n):
    """n header-only records above the tip (a node in headers-first sync): the index then holds a number of records that no
    hand-made index has, the delivered chain stays the same."""
    from .datadir import VALID_TREE
    tip, tipb = chain[-1]
    prev = tipb.hash
    merkle = rbytes(rng, 32)
    nonce0 = rng.getrandbits(20)
    for k in range(n):
        b = Block(4, prev, 1600000000 + k, 0x1D00FFFF, nonce0 + k, [], merkle=merkle)
        kw["header_only"].append(HeaderOnly(b, tip + 1 + k, VALID_TREE, 0))
        prev = b.hash
    return n


def layout_chain(rng, coin, nblocks=12, big_every=5, start_height=0):
    """Chain with unique blocks of varied sizes (some larger than the 32 KiB read buffer)."""
    from .chain import TxOut
    cb = ChainBuilder(rng, coin, start_height=start_height)
    for i in range(nblocks):
        if big_every and i % big_every == big_every - 1:
            t = cb.spend_tx(1, outs=[TxOut(1, rbytes(rng, rng.choice([33000, 40000, 70000]))), cb.out("p2pkh")])
            cb.add_block(txs=[t])
        else:
            cb.add_block(n_tx=rng.randint(0, 3))
    chain = cb.chain()
    if rng.random() < 0.4:
        from .gen import add_slack
        add_slack(rng, chain, coin)       # records longer than their block
    return chain


def classify_seeks(events, names, sizes):
    """From H2 fetch/open/close events: counts of seek kinds (previous read end vs next block start on the same
    open handle). names: file number -> file name; sizes: height -> serialised block length."""
    kinds = {}
    num_of = {v: k for k, v in names.items()}
    pos = {}  # file number -> position after the last read on the currently open handle
    for e in events:
        if e["ev"] == "blk_close":
            pos.pop(num_of.get(os.path.basename(e["path"])), None)
        elif e["ev"] == "fetch":
            f, off, h = e["file"], e["offset"], e["height"]
            start = off - 4
            if f in pos:
                delta = start - pos[f]
                if delta == 4:
                    k = "sequential"
                elif delta < 0:
                    k = "backward_near" if -delta <= 32768 else "backward_far"
                elif delta <= 32768:
                    k = "forward_within_buffer"
                else:
                    k = "forward_beyond_buffer"
            else:
                k = "first_after_open"
            kinds[k] = kinds.get(k, 0) + 1
            pos[f] = off + sizes.get(h, 0)
    return kinds
