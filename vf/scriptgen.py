"""Script workload families (shared by C05, C06, C14, C16). Every generator yields (family, script bytes)."""
import struct
from .gen import rbytes, push, pubkey

TEMPLATES = ["p2pkh", "p2pk33", "p2pk65", "p2sh", "p2wpkh", "p2wsh", "p2tr", "wprog", "multisig", "opreturn", "multisig23"]


def template(rng, kind):
    h20, h32 = rbytes(rng, 20), rbytes(rng, 32)
    if kind == "p2pkh":
        return b"\x76\xa9\x14" + h20 + b"\x88\xac"
    if kind == "p2pk33":
        return b"\x21" + pubkey(rng, 33) + b"\xac"
    if kind == "p2pk65":
        return b"\x41" + pubkey(rng, 65) + b"\xac"
    if kind == "p2sh":
        return b"\xa9\x14" + h20 + b"\x87"
    if kind == "p2wpkh":
        return b"\x00\x14" + h20
    if kind == "p2wsh":
        return b"\x00\x20" + h32
    if kind == "p2tr":
        return b"\x51\x20" + h32
    if kind == "wprog":
        return b"\x52\x10" + rbytes(rng, 16)
    if kind == "multisig":
        return b"\x51" + push(pubkey(rng, 33)) + push(pubkey(rng, 65)) + b"\x52\xae"
    if kind == "multisig23":
        return b"\x52" + b"".join(push(pubkey(rng, 33)) for _ in range(3)) + b"\x53\xae"
    if kind == "opreturn":
        return b"\x6a" + push(b"hello world " + rbytes(rng, 4).hex().encode())
    raise KeyError(kind)


def same_payload_roles(rng):
    """The same 20 / 32 bytes (and the same key) in every role they can play, back to back and again later: a result must depend on
    the script at hand only, never on what was evaluated before."""
    import hashlib
    for _ in range(6):
        key = pubkey(rng, rng.choice([33, 65]))
        h = hashlib.new("ripemd160", hashlib.sha256(key).digest()).digest()
        h32 = rbytes(rng, 12) + h
        roles = [b"\x76\xa9\x14" + h + b"\x88\xac", b"\xa9\x14" + h + b"\x87", b"\x00\x14" + h, push(key) + b"\xac", b"\x6a" + push(h),
                 b"\x00\x20" + h32, b"\x51\x20" + h32, b"\xa9\x14" + h + b"\x87", b"\x76\xa9\x14" + h + b"\x88\xac"]
        order = list(roles)
        rng.shuffle(order)
        for sc in roles + order:
            yield sc


def fam_recur_far(rng, pool=70000, fork=False):
    """Long evaluation history inside ONE process: `pool` distinct destinations (every address-bearing template), then destinations
    from the beginning, the middle and the end of that history come back - unchanged, and with the same hash / key in another role.
    Anything the evaluator remembers between scripts (a memo, an interning table, a ring of recent results of 2^10..2^16 entries)
    shows here and nowhere else: no single script of this family is special, only the order is."""
    import hashlib
    kinds = ["p2pkh", "p2sh", "p2pk33", "p2pk65"] if fork else ["p2pkh", "p2sh", "p2pk33", "p2pk65", "p2wpkh", "p2wsh", "p2tr", "wprog"]
    hist = []
    for i in range(pool):
        k = kinds[i % len(kinds)] if i % 7 else "p2pkh"
        sc = template(rng, k)
        hist.append((k, sc))
        yield "recur-far:first:" + k, sc
    marks = sorted(set([0, 1, 2, 3, 100, 1023, 1024, 1025, 4095, 4096, 4097, 8191, 8192, 16383, 16384, 32768, 65535, 65536, pool - 1] +
                       [rng.randrange(pool) for _ in range(1500)]))
    for i in marks:
        if i < pool:
            k, sc = hist[i]
            yield "recur-far:again:" + k, sc
            # the same 20 bytes in the other role, right after
            if k == "p2pkh":
                yield "recur-far:other-role:p2sh", b"\xa9\x14" + sc[3:23] + b"\x87"
            elif k == "p2sh":
                yield "recur-far:other-role:p2pkh", b"\x76\xa9\x14" + sc[2:22] + b"\x88\xac"
            elif k in ("p2pk33", "p2pk65"):
                key = sc[1:-1]
                h = hashlib.new("ripemd160", hashlib.sha256(key).digest()).digest()
                yield "recur-far:other-role:p2pkh-of-key", b"\x76\xa9\x14" + h + b"\x88\xac"
    # second sweep in reverse order: the table has been refilled in between
    for i in reversed(marks[::3]):
        if i < pool:
            yield "recur-far:again2:" + hist[i][0], hist[i][1]


def fam_templates(rng, n):
    for k in TEMPLATES:
        for _ in range(n):
            yield "template:" + k, template(rng, k)
    for sc in same_payload_roles(rng):
        yield "template:same-payload-roles", sc


def fam_mutations(rng, full=True, stride=1):
    """every one-byte substitution, every truncation, one-byte extension (append + insert) of each template"""
    for k in TEMPLATES:
        t = template(rng, k)
        for i in range(len(t) + 1):
            yield "trunc:" + k, t[:i]
        for i in range(0, len(t), stride):
            vals = range(256) if (full or i < 3 or i >= len(t) - 2) else sorted(set([0, 1, 0x4b, 0x4c, 0x4d, 0x4e, 0x4f, 0x50, 0x51, 0x60, 0x61, 0x6a, 0xac, 0xae, 0xff, rng.randrange(256)]))
            for b in vals:
                if b != t[i]:
                    yield "subst:" + k, t[:i] + bytes([b]) + t[i + 1:]
        for b in range(256):
            yield "append:" + k, t + bytes([b])
        for i in range(0, len(t), max(1, stride)):
            yield "insert:" + k, t[:i] + bytes([rng.choice([0x00, 0x61, 0x4c, 0x51, 0x6a, 0xb0, rng.randrange(256)])]) + t[i:]


def fam_leading(rng):
    tails = [b""] + [template(rng, k) for k in TEMPLATES] + [rbytes(rng, 5)]
    for op in range(256):
        for t in tails:
            yield "leading", bytes([op]) + t


def fam_witness(rng):
    vers = [0x00, 0x4f, 0x50] + list(range(0x51, 0x62))
    for v in vers:
        for ln in range(0, 44):
            prog = rbytes(rng, ln)
            yield "witness:direct", bytes([v]) + bytes([ln]) + prog
            if ln in (0, 1, 2, 20, 32, 40, 41):
                yield "witness:pushdata1", bytes([v]) + b"\x4c" + bytes([ln]) + prog
                yield "witness:trailing", bytes([v, ln]) + prog + b"\x00"
                yield "witness:short", bytes([v, ln]) + prog[:-1] if ln else bytes([v, ln])


def fam_multisig(rng, max_keys=17):
    sizes = [33, 65, 20, 0, 32, 64, 1]
    for m in range(0, 17):
        mop = bytes([0x50 + m]) if m else b"\x00"
        for n in range(0, 17):
            nop = bytes([0x50 + n]) if n else b"\x00"
            for k in sorted(set([max(0, n - 1), n, n + 1])):
                if k > max_keys:
                    continue
                for sz in (33, 65, rng.choice(sizes)):
                    keys = b"".join(push(rbytes(rng, sz)) for _ in range(k))
                    yield "multisig:grid", mop + keys + nop + b"\xae"
    # shape variants on a well-formed 2-of-3
    keys = [pubkey(rng, 33), pubkey(rng, 65), pubkey(rng, 33)]
    body = b"".join(push(k) for k in keys)
    good = b"\x52" + body + b"\x53\xae"
    yield "multisig:good", good
    for x in range(256):
        yield "multisig:n-replaced", b"\x52" + body + bytes([x]) + b"\xae"
        yield "multisig:last-replaced", b"\x52" + body + b"\x53" + bytes([x])
        yield "multisig:m-replaced", bytes([x]) + body + b"\x53\xae"
        yield "multisig:trailing", good + bytes([x])
    for i in range(len(good)):
        yield "multisig:trunc", good[:i]
    for form in ("p1", "p2", "p4"):
        yield "multisig:pushforms", b"\x52" + b"".join(push(k, form) for k in keys) + b"\x53\xae"
    yield "multisig:mixedsizes", b"\x51" + push(rbytes(rng, 33)) + push(rbytes(rng, 34)) + b"\x52\xae"
    yield "multisig:emptykey", b"\x51" + b"\x00" + b"\x51\xae"
    for k in range(1, 20):
        yield "multisig:k-keys", b"\x51" + b"".join(push(pubkey(rng, 33)) for _ in range(k)) + bytes([0x50 + min(k, 16)]) + b"\xae"
        yield "multisig:k-keys-x", b"\x51" + b"".join(push(pubkey(rng, 33)) for _ in range(k)) + b"\x76\xae"


INTERESTING_OPS = [0x00, 0x4f, 0x50, 0x51, 0x52, 0x53, 0x60, 0x61, 0x62, 0x65, 0x6a, 0x75, 0x76, 0x87, 0x88, 0xa9, 0xac, 0xad, 0xae, 0xaf,
                   0xb0, 0xb1, 0xb9, 0xba, 0xff, 0x7e, 0x8a]


def random_tokens(rng, max_tokens=8, truncated_ok=True):
    out = b""
    for _ in range(rng.randint(0, max_tokens)):
        r = rng.random()
        if r < 0.45:
            out += bytes([rng.choice(INTERESTING_OPS) if rng.random() < 0.8 else rng.randrange(256)])
        else:
            ln = rng.choice([0, 1, 2, 20, 20, 32, 33, 33, 65, 75, 76, 80, rng.randint(0, 300)])
            forms = [f for f, lim in (("d", 75), ("p1", 255), ("p2", 65535), ("p4", 1 << 32)) if ln <= lim]
            out += push(rbytes(rng, ln), rng.choice(forms))
    if truncated_ok and out and rng.random() < 0.15:
        out = out[:rng.randrange(len(out))]
    return out


def fam_random_tokens(rng, n):
    for _ in range(n):
        yield "random:tokens", random_tokens(rng)


def fam_random_bytes(rng, n, maxlen=10000):
    for _ in range(n):
        r = rng.random()
        ln = rng.randint(0, 8) if r < 0.3 else (rng.randint(0, 100) if r < 0.8 else rng.randint(0, maxlen))
        yield "random:bytes", rbytes(rng, ln)


# ---------------------------------------------------------------- fork-coin specific
def data_slot_forms(rng, lengths=None, big=False):
    """(form, length) pairs on both sides of every push-width boundary"""
    ls = lengths or [1, 2, 20, 33, 65, 74, 75, 76, 77, 80, 254, 255, 256, 257, 1000]
    if big:
        ls = ls + [4095, 4096]
    if big == "all" or big is True:
        ls = ls + [65535, 65536]
    for ln in ls:
        for form, lim in (("d", 75), ("p1", 255), ("p2", 65535), ("p4", 1 << 32)):
            if ln <= lim:
                yield form, ln


FORK_TEMPLATES = {
    "p2pkh": [b"\x76", b"\xa9", None, b"\x88", b"\xac"],
    "p2pk": [None, b"\xac"],
    "p2sh": [b"\xa9", None, b"\x87"],
    "opreturn": [b"\x6a", None],
    "multisig23": [b"\x52", None, None, None, b"\x53", b"\xae"],
}
NOP_BYTES = [0x61] + list(range(0xB0, 0xBA))


def fam_fork_templates(rng, big=False):
    for name, toks in FORK_TEMPLATES.items():
        slots = [i for i, t in enumerate(toks) if t is None]
        # multi-kB pushes (PUSHDATA2/4 widths): every template in the big plan, two templates otherwise
        for form, ln in data_slot_forms(rng, big="all" if (big or name == "opreturn") else "mid"):
            for slot in slots:
                parts = []
                for i, t in enumerate(toks):
                    if t is not None:
                        parts.append(t)
                    elif i == slot:
                        parts.append(push(rbytes(rng, ln), form))
                    else:
                        parts.append(push(rbytes(rng, 33)))
                s = b"".join(parts)
                yield "fork:template:" + name + ":" + form, s
                # truncations inside the variable slot (length bytes and payload)
                start = sum(len(p) for p in parts[:slot])
                hdr = {"d": 1, "p1": 2, "p2": 3, "p4": 5}[form]
                cuts = list(range(start, start + hdr + 1)) + [start + hdr + ln // 2, len(s) - 1]
                if ln <= 80:
                    cuts = list(range(start, len(s)))
                for c in sorted(set(cuts)):
                    if 0 <= c < len(s):
                        yield "fork:truncated:" + name + ":" + form, s[:c]
        # zero-length pushes in a slot
        for z in (b"\x00", b"\x4c\x00", b"\x4d\x00\x00", b"\x4e\x00\x00\x00\x00"):
            for slot in slots:
                parts = [t if t is not None else push(rbytes(rng, 20)) for t in toks]
                parts[slot] = z
                yield "fork:zero-push:" + name, b"".join(parts)
        # NOP insertions at every token boundary (single and multiple)
        parts = [t if t is not None else push(rbytes(rng, 20)) for t in toks]
        for pos in range(len(parts) + 1):
            for nop in NOP_BYTES:
                yield "fork:nop:" + name, b"".join(parts[:pos]) + bytes([nop]) + b"".join(parts[pos:])
        yield "fork:nop-all:" + name, b"\x61".join([b""] + parts + [b""])
        # wrong opcode in each fixed position, extra/missing token
        for i, t in enumerate(toks):
            if t is not None:
                for b in (0x00, 0x51, 0x6a, 0x75, 0x76, 0x87, 0x88, 0xa9, 0xac, 0xae, 0xff):
                    if bytes([b]) != t:
                        q = list(parts)
                        q[i] = bytes([b])
                        yield "fork:wrong-op:" + name, b"".join(q)
            q = list(parts)
            del q[i]
            yield "fork:missing-token:" + name, b"".join(q)
        yield "fork:extra-token:" + name, b"".join(parts) + b"\x51"
        yield "fork:extra-data:" + name, b"".join(parts) + push(rbytes(rng, 3))
    # long scripts (around and beyond the 10,000-byte consensus script size and the 520-byte element size, which do not matter
    # for typing): templates padded with no-ops to an exact total length, and data slots of about 10 kB
    for name in ("p2pkh", "p2pk", "p2sh"):
        toks = FORK_TEMPLATES[name]
        parts = [t if t is not None else push(rbytes(rng, 33 if name == "p2pk" else 20)) for t in toks]
        base = b"".join(parts)
        for total in (519, 520, 521, 9999, 10000, 10001, 10002, 16384, 32768, 32769) + ((70000, 100000) if big else ()):
            pad = total - len(base)
            where = rng.choice(["tail", "head", "middle"])
            nop = bytes([rng.choice(NOP_BYTES)])
            if where == "tail":
                yield "fork:long-nops:" + name, base + nop * pad
            elif where == "head":
                yield "fork:long-nops:" + name, nop * pad + base
            else:
                yield "fork:long-nops:" + name, parts[0] + nop * pad + b"".join(parts[1:])
        slot = toks.index(None)
        for ln in (519, 520, 521, 9990, 9996, 9997, 10000, 10001, 10500):
            q = list(parts)
            q[slot] = push(rbytes(rng, ln), rng.choice(["p2", "p4"]))
            yield "fork:long-slot:" + name, b"".join(q)
    for sc in same_payload_roles(rng):
        yield "fork:same-payload-roles", sc
    # numbers of the 2-of-3 template given as data pushes instead of OP_2 / OP_3: five data tokens + OP_CHECKMULTISIG is not the template
    k3 = [push(pubkey(rng, 33)) for _ in range(3)]
    for m_ in (b"\x52", b"\x01\x02", b"\x4c\x01\x02", b"\x02\x02\x00"):
        for n_ in (b"\x53", b"\x01\x03", b"\x4c\x01\x03", b"\x02\x03\x00"):
            if (m_, n_) != (b"\x52", b"\x53"):
                yield "fork:multisig-pushed-number", m_ + b"".join(k3) + n_ + b"\xae"
                yield "fork:multisig-pushed-number", m_ + b"\x61" + b"".join(k3) + b"\xb1" + n_ + b"\xae"
    # PUSHDATA edge cases
    for op, w in ((0x4C, 1), (0x4D, 2), (0x4E, 4)):
        yield "fork:pushdata-edge", bytes([op])
        for cut in range(w):
            yield "fork:pushdata-edge", bytes([op]) + b"\x05" * cut
        yield "fork:pushdata-edge", bytes([op]) + (5).to_bytes(w, "little") + b"abcd"
        yield "fork:pushdata-edge", bytes([op]) + (5).to_bytes(w, "little") + b"abcde"
        yield "fork:pushdata-edge", bytes([op]) + (5).to_bytes(w, "little") + b"abcde" + b"\xac"
        yield "fork:pushdata-edge", b"\x6a" + bytes([op]) + (80).to_bytes(w, "little") + rbytes(rng, 80)
        yield "fork:pushdata-edge", bytes([op]) + b"\xff" * w + b"abc"
        yield "fork:pushdata-edge", b"\x6a" + bytes([op]) + b"\xff" * w


# ---------------------------------------------------------------- hostile (C14)
def fam_hostile(rng, big=True):
    # truncated pushes of every width
    for n in range(1, 0x4C):
        yield "hostile:trunc-direct", bytes([n]) + rbytes(rng, rng.randrange(n))
    for op, w in ((0x4C, 1), (0x4D, 2), (0x4E, 4)):
        for cut in range(w + 1):
            yield "hostile:trunc-len", bytes([op]) + rbytes(rng, cut)
        for ln in (0, 1, 0x7F, 0xFF, 0xFFFF, 0x10000, 0x7FFFFFFF, 0x80000000, 0xFFFFFFFE, 0xFFFFFFFF):
            if ln < (1 << (8 * w)):
                for pre in (b"", b"\x6a", b"\x51", b"\x76\xa9", b"\xa9"):
                    yield "hostile:huge-len", pre + bytes([op]) + ln.to_bytes(w, "little") + rbytes(rng, rng.randint(0, 6))
    # many pushes after OP_n (multisig look-alikes with 1, 16, 17, 19, 20, 255, 256, 257, 1000, 10^4 pushes)
    for k in (1, 16, 17, 18, 19, 20, 21, 100, 254, 255, 256, 257, 258, 300, 511, 512, 513, 1000) + ((10000,) if big else ()):
        for m in (0x51, 0x52, 0x60):
            for tail in (b"\x60\xae", b"\x51\xae", b"\xae", b"\x76\xae", b"", bytes([0x50 + (k % 256 if 1 <= k % 256 <= 16 else 1)]) + b"\xae"):
                yield "hostile:many-pushes", bytes([m]) + b"\x01\x02" * k + tail
        yield "hostile:many-empty-pushes", b"\x51" + b"\x00" * k + b"\x51\xae"
        yield "hostile:many-ops", b"\x61" * k
        yield "hostile:many-ops", b"\x76" * k + b"\xac"
    # invalid UTF-8 after OP_RETURN
    for bad in (b"\xff\xfe", b"\xc3\x28", b"\xe2\x82", b"\xf0\x9f\x92", b"\xed\xa0\x80", b"\x80", b"abc\xffdef", rbytes(rng, 40)):
        yield "hostile:bad-utf8", b"\x6a" + push(bad)
        yield "hostile:bad-utf8", b"\x6a" + bad
        yield "hostile:bad-utf8", b"\x6a\x4c" + bytes([len(bad)]) + bad
    # witness-program look-alikes with illegal lengths
    for v in (0x00, 0x51, 0x60, 0x4f, 0x61):
        for ln in (0, 1, 41, 42, 75, 76):
            yield "hostile:witness-lookalike", bytes([v, ln]) + rbytes(rng, ln)
            yield "hostile:witness-lookalike", bytes([v, ln]) + rbytes(rng, max(0, ln - 1))
    # p2pk look-alikes
    for n in (33, 65):
        yield "hostile:p2pk-lookalike", bytes([n]) + rbytes(rng, n)
        yield "hostile:p2pk-lookalike", bytes([n]) + rbytes(rng, n - 1) + b"\xac"
        yield "hostile:p2pk-lookalike", b"\x4c" + bytes([n]) + rbytes(rng, n) + b"\xac"
        yield "hostile:p2pk-lookalike", bytes([n]) + b"\x00" * n + b"\xac"
    if big:
        for ln in (10000, 100000):
            yield "hostile:big", rbytes(rng, ln)
            yield "hostile:big", b"\x6a" + push(rbytes(rng, ln))
            yield "hostile:big", b"\x61" * ln
            yield "hostile:big", b"\x4e" + struct.pack("<I", ln) + rbytes(rng, ln)
