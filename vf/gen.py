"""Workload generators: scripts, transactions, chains."""
import struct
from .chain import Tx, TxIn, TxOut, Block, ZERO32, COINS, genesis_block, link
from .ser import compact_size

STD_KINDS_BTC = ["p2pkh", "p2pk33", "p2pk65", "p2sh", "p2wpkh", "p2wsh", "p2tr", "wprog", "multisig", "opreturn", "unspendable", "nonstd"]
STD_KINDS_FORK = ["p2pkh", "p2pk33", "p2pk65", "p2sh", "multisig23", "opreturn", "nonstd", "segwitlike"]
ADDR_KINDS_BTC = ["p2pkh", "p2pk33", "p2pk65", "p2sh", "p2wpkh", "p2wsh", "p2tr", "wprog"]
ADDR_KINDS_FORK = ["p2pkh", "p2pk33", "p2pk65", "p2sh"]


def rbytes(rng, n):
    return rng.getrandbits(8 * n).to_bytes(n, "little") if n else b""


def push(data: bytes, form=None):
    """Encodes a data push. form: None=minimal direct/PUSHDATA, or 'd','p1','p2','p4'."""
    n = len(data)
    if form is None:
        form = "d" if n <= 75 else ("p1" if n <= 255 else ("p2" if n <= 65535 else "p4"))
    if form == "d":
        assert n <= 75
        return bytes([n]) + data
    if form == "p1":
        assert n <= 255
        return b"\x4c" + bytes([n]) + data
    if form == "p2":
        assert n <= 65535
        return b"\x4d" + struct.pack("<H", n) + data
    return b"\x4e" + struct.pack("<I", n) + data


_P = 2**256 - 2**32 - 977     # secp256k1 field prime (p = 3 mod 4: square roots by one exponentiation)


def curve_point(rng):
    """A point on secp256k1 (random x until x^3+7 is a square): what every real public key is. Random 64 bytes never are."""
    while True:
        x = rng.getrandbits(256) % _P
        rhs = (pow(x, 3, _P) + 7) % _P
        y = pow(rhs, (_P + 1) // 4, _P)
        if y * y % _P == rhs:
            if rng.random() < 0.5:
                y = _P - y
            return x, y


def pubkey(rng, size=33):
    """Key material for a 33- or 65-byte push. Half of the keys are valid curve points in every SEC1 form a node accepts on the wire
    (compressed 02/03, uncompressed 04, hybrid 06/07 with the parity of y in the prefix), some are near-keys (hybrid prefix with the
    wrong parity, x not on the curve), the rest are random bytes with a key prefix. Scripts are judged by their bytes: the address of a
    P2PK output is derived from the PUSHED bytes whatever they encode."""
    r = rng.random()
    if r < 0.5:
        x, y = curve_point(rng)
        xb, yb = x.to_bytes(32, "big"), y.to_bytes(32, "big")
        if size == 33:
            return bytes([2 + (y & 1)]) + xb
        form = rng.random()
        if form < 0.5:
            return b"\x04" + xb + yb
        if form < 0.85:
            return bytes([6 + (y & 1)]) + xb + yb            # hybrid, valid
        return bytes([7 - (y & 1)]) + xb + yb                # hybrid prefix contradicting y
    if size == 33:
        return bytes([rng.choice([2, 3])]) + rbytes(rng, 32)
    return bytes([rng.choice([4, 4, 4, 6, 7])]) + rbytes(rng, 64)


def std_script(rng, coin, kind=None, key=None):
    """A script of a pinned type. key: optional fixed key material (bytes) to make addresses repeat."""
    btc = COINS[coin].bitcoin_rules if isinstance(coin, str) else coin.bitcoin_rules
    if kind is None:
        kind = rng.choice(STD_KINDS_BTC if btc else STD_KINDS_FORK)
    h20 = key[:20].ljust(20, b"\1") if key else rbytes(rng, 20)
    h32 = key[:32].ljust(32, b"\2") if key else rbytes(rng, 32)
    if kind == "p2pkh":
        return b"\x76\xa9\x14" + h20 + b"\x88\xac"
    if kind == "p2pk33":
        pk = (b"\x02" + h32) if key else pubkey(rng, 33)
        return b"\x21" + pk + b"\xac"
    if kind == "p2pk65":
        pk = (b"\x04" + h32 + h32) if key else pubkey(rng, 65)
        return b"\x41" + pk + b"\xac"
    if kind == "p2sh":
        return b"\xa9\x14" + h20 + b"\x87"
    if kind == "p2wpkh":
        return b"\x00\x14" + h20
    if kind == "p2wsh":
        return b"\x00\x20" + h32
    if kind == "p2tr":
        return b"\x51\x20" + h32
    if kind == "wprog":
        ver = rng.randint(1, 16)
        ln = rng.randint(2, 40)
        if ver == 1 and ln == 32:
            ln = 31
        return bytes([0x50 + ver, ln]) + rbytes(rng, ln)
    if kind == "multisig":
        n = rng.randint(1, 5)
        m = rng.randint(1, n)
        return bytes([0x50 + m]) + b"".join(push(pubkey(rng, rng.choice([33, 65]))) for _ in range(n)) + bytes([0x50 + n, 0xAE])
    if kind == "multisig23":
        return b"\x52" + b"".join(push(pubkey(rng, 33)) for _ in range(3)) + b"\x53\xae"
    if kind == "opreturn":
        n = rng.randint(1, 75)
        txt = bytes(rng.choice(b"abcdefghijklmnopqrstuvwxyz0123456789 ") for _ in range(n))
        return b"\x6a" + push(txt)
    if kind == "unspendable":
        return bytes([rng.choice([0x65, 0x50, 0x7e, 0xba, 0xff, 0x8a])]) + rbytes(rng, rng.randint(0, 10))
    if kind == "segwitlike":
        return b"\x00\x14" + h20
    # non-standard but harmless: small arithmetic script
    return rng.choice([b"\x51", b"\x52\x93\x54\x87", b"\x75\x51", b"\x76\x76\x87", b""])


def coinbase_tx(rng, height, outs, extra=b"", segwit=False):
    sig = push(struct.pack("<I", height)) + push(rbytes(rng, 4)) + extra
    tin = TxIn(ZERO32, 0xFFFFFFFF, sig, 0xFFFFFFFF, [rbytes(rng, 32)] if segwit else None)
    return Tx(1, [tin], outs, 0, segwit=segwit)


class ChainBuilder:
    """Builds consistent chains with spendable-output bookkeeping."""

    def __init__(self, rng, coin, start_height=0, genesis=False, time0=1500000000):
        self.rng = rng
        self.coin = COINS[coin] if isinstance(coin, str) else coin
        self.height = start_height
        self.blocks = []            # (height, Block)
        self.spendable = []         # (txid bytes, index, value)
        self.time = time0
        self.prev = ZERO32
        if genesis:
            g = genesis_block(self.coin.name)
            if g is not None and start_height == 0:
                self._append(g)

    def _append(self, b):
        b.prev = self.prev
        b.fix_merkle()
        self.blocks.append((self.height, b))
        self.prev = b.hash
        self.height += 1
        return b

    def out(self, kind=None, value=None, key=None):
        v = self.rng.randint(0, 50 * 10**8) if value is None else value
        return TxOut(v, std_script(self.rng, self.coin, kind, key))

    def spend_tx(self, n_in=1, outs=None, segwit=None, version=None):
        rng = self.rng
        ins = []
        for _ in range(n_in):
            if self.spendable and rng.random() < 0.9:
                txid, idx, _ = self.spendable.pop(rng.randrange(len(self.spendable)))
            else:
                txid, idx = rbytes(rng, 32), rng.randint(0, 3)
            sw = rng.random() < 0.4 if segwit is None else segwit
            wit = [rbytes(rng, rng.choice([0, 1, 32, 71, 72])) for _ in range(rng.randint(0, 3))] if sw else None
            ins.append(TxIn(txid, idx, rbytes(rng, rng.choice([0, 0, 23, 72, 107])), rng.choice([0xFFFFFFFF, 0xFFFFFFFE, 0, rng.getrandbits(32)]), wit))
        is_sw = any(i.witness is not None and len(i.witness) > 0 for i in ins) if segwit is None else segwit
        if outs is None:
            outs = [self.out() for _ in range(rng.randint(1, 4))]
        return Tx(rng.choice([1, 2]) if version is None else version, ins, outs, rng.choice([0, 0, rng.getrandbits(32)]), segwit=is_sw)

    def add_block(self, txs=None, n_tx=None, version=None, time=None, bits=None, nonce=None, coinbase_outs=None, auxpow=None):
        rng = self.rng
        h = self.height
        if txs is None:
            n_tx = rng.randint(0, 4) if n_tx is None else n_tx
            txs = [self.spend_tx(rng.randint(1, 3)) for _ in range(n_tx)]
        cb = coinbase_tx(rng, h, coinbase_outs or [self.out(rng.choice(["p2pkh", "p2pk65", "p2sh"]), 50 * 10**8 + rng.randint(0, 10**6))])
        all_txs = [cb] + list(txs)
        self.time += rng.randint(1, 1200) if time is None else 0
        if version is None:
            # blocks at/above the AuxPoW activation version carry an AuxPoW section on namecoin/dogecoin
            version = rng.choice([1, 2, 4]) if (self.coin.auxpow and auxpow is None) else rng.choice([1, 2, 4, 0x20000000])
        b = Block(version, ZERO32,
                  self.time if time is None else time, 0x1D00FFFF if bits is None else bits,
                  rng.getrandbits(32) if nonce is None else nonce, all_txs, auxpow=auxpow)
        self._append(b)
        for t in all_txs:
            for n, o in enumerate(t.outs):
                self.spendable.append((t.txid, n, o.value))
        return b

    def chain(self):
        return list(self.blocks)


def simple_chain(rng, coin, n_blocks, genesis=False, max_tx=4, start_height=0):
    cb = ChainBuilder(rng, coin, start_height=start_height, genesis=genesis)
    while len(cb.blocks) < n_blocks:
        cb.add_block(n_tx=rng.randint(0, max_tx))
    return cb.chain()


def add_slack(rng, chain, coin, share=0.3):
    """Records that are longer than their block: the stored length prefix also covers bytes BEHIND the serialised block (zeros, noise,
    or what looks like a complete record of another block - magic, length, block). A reader takes the block from the record's offset;
    where the next record begins follows from the index, never from how many bytes the parser happened to consume. blocksize (the
    stored prefix) includes the slack; nothing else changes. Returns the number of padded records."""
    import struct
    from .chain import COINS
    c = COINS[coin] if isinstance(coin, str) else coin
    n = 0
    for h, b in chain:
        if rng.random() < share:
            kind = rng.choice(["zeros", "noise", "record"])
            if kind == "zeros":
                b.slack = bytes(rng.choice([1, 4, 8, 80, 300]))
            elif kind == "noise":
                b.slack = rbytes(rng, rng.choice([1, 7, 8, 81, 500]))
            else:
                other = ChainBuilder(rng, c.name if hasattr(c, "name") else coin, start_height=h + 1)
                other.prev = b.hash
                ob = other.add_block(n_tx=rng.randint(0, 2)).ser()
                b.slack = struct.pack("<I", c.magic) + struct.pack("<I", len(ob)) + ob
            n += 1
    return n


def vary_times(rng, chain, keep_first=False, pattern=None):
    """Header timestamps as real chains have them: not monotonic (a block only has to be later than the median of the previous eleven),
    equal, dated in the future relative to the moment the tool runs, or at the edges of the 32-bit range. Never exactly 0. The chain is
    re-linked afterwards (prev hashes follow the new block hashes; txids do not change). Returns the pattern used."""
    import time as _time
    from .chain import link
    blocks = [b for _, b in chain]
    if len(blocks) < 2:
        return "none"
    pattern = pattern or rng.choice(["backsteps", "last-before-first", "future", "edges", "constant"])
    now = int(_time.time())
    first = 1 if keep_first else 0
    t = blocks[0].time if keep_first else rng.choice([1231006505, 1500000000, now - 86400 * 30])
    for i, b in enumerate(blocks):
        if i < first:
            continue
        if pattern == "backsteps":
            t = max(1, t + rng.choice([600, 1, 0, -1, -600, -7199, 1200, 30]))
        elif pattern == "last-before-first":
            t = t + 600 if i < len(blocks) - 1 else max(1, blocks[first].time - rng.choice([1, 2999, 86400]))
        elif pattern == "future":
            t = rng.choice([now + 7190, now + 7300, now + 86400 * 400, t + 600, t + 600])
        elif pattern == "edges":
            t = rng.choice([1, 2**31 - 1, 2**31, 2**32 - 1, 2**32 - 2, t + 600, 1231006505])
        t = min(max(1, t), 0xFFFFFFFF)       # stay inside the 32-bit field (a step beyond 2^32-1 saturates)
        b.time = t if pattern != "constant" else blocks[first].time if i > first else t
    link(blocks[first:] if keep_first else blocks, prev=blocks[0].hash if keep_first else blocks[0].prev)
    return pattern


def add_duplicate_txs(rng, chain, coin, payloads=(b"hello from an early miner", b"again")):
    """Identical transactions in different blocks (as on mainnet: the coinbases of blocks 91722/91880 and 91812/91842). Appends blocks
    to the chain: a coinbase carrying an OP_RETURN output and a normal output, the byte-identical coinbase again in the next block and
    once more a few blocks later, and an identical non-coinbase transaction in two blocks. Returns the extended chain (re-linked)."""
    from .chain import Block, Tx, TxIn, TxOut, ZERO32, link
    blocks = [b for _, b in chain]
    h0 = chain[0][0]
    t = blocks[-1].time
    cbtx = Tx(1, [TxIn(ZERO32, 0xFFFFFFFF, b"\x03dup" + rbytes(rng, 4), 0xFFFFFFFF)],
              [TxOut(50 * 10**8, std_script(rng, coin, "p2pkh")), TxOut(0, b"\x6a" + push(payloads[0]))], 0)
    plain = Tx(2, [TxIn(rbytes(rng, 32), 1, b"\x51", 0xFFFFFFFE)], [TxOut(0, b"\x6a" + push(payloads[1])), TxOut(7, std_script(rng, coin, "p2pkh"))], 0)
    other = Tx(1, [TxIn(ZERO32, 0xFFFFFFFF, b"\x03oth" + rbytes(rng, 4), 0xFFFFFFFF)], [TxOut(50 * 10**8, std_script(rng, coin, "p2pkh"))], 0)
    for txs in ([cbtx], [cbtx], [other, plain], [cbtx, plain], [other], [cbtx]):
        t += 600
        blocks.append(Block(1, ZERO32, t, 0x1D00FFFF, rng.getrandbits(32), list(txs)))
    link(blocks, prev=blocks[0].prev)
    return [(h0 + i, b) for i, b in enumerate(blocks)]
