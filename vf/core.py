"""Check framework: builds, process runner, verdict bookkeeping, evidence, known findings, replay files."""
import fcntl
import hashlib
import json
import os
import random
import resource
import shutil
import signal
import subprocess
import sys
import time
import traceback
from concurrent.futures import ProcessPoolExecutor, as_completed

VERIF = os.path.dirname(os.path.dirname(os.path.abspath(__file__)))
REPO = os.environ.get("VERIF_REPO", "/repo")
BUILD = os.path.join(VERIF, ".build")
WORK = os.path.join(VERIF, ".work")
REPLAYS = os.path.join(VERIF, "replays")
EVIDENCE = os.path.join(VERIF, "evidence")
KNOWN_FILE = os.path.join(VERIF, "KNOWN_FINDINGS.txt")
NPROC = int(os.environ.get("VERIF_JOBS", os.cpu_count() or 8))
WATCHDOG = 180  # seconds per process; firing => inconclusive, never a violation


class Inconclusive(Exception):
    pass


def _cargo_env(target):
    env = dict(os.environ)
    env["CARGO_TARGET_DIR"] = target
    env["CARGO_NET_OFFLINE"] = "true"
    env.pop("RUSTFLAGS", None)
    return env


def _target_dir(profile):
    tag = "" if REPO == "/repo" else "-" + hashlib.sha1(REPO.encode()).hexdigest()[:10]
    return os.path.join(BUILD, profile + tag)


def build(profile="release"):
    """Builds /repo's working tree (feature verif) and returns the binary path. profile: debug|release|tsan"""
    os.makedirs(BUILD, exist_ok=True)
    target = _target_dir(profile)
    lock = open(os.path.join(BUILD, ".lock-" + os.path.basename(target)), "w")
    fcntl.flock(lock, fcntl.LOCK_EX)
    try:
        cmd = ["cargo", "build", "--offline", "--features", "verif", "--manifest-path", os.path.join(REPO, "Cargo.toml")]
        env = _cargo_env(target)
        sub = profile
        if profile == "release":
            cmd.append("--release")
        elif profile == "release-nohooks":
            # the program as shipped: guard off (used to confirm that the hooks do not change behaviour)
            cmd = ["cargo", "build", "--offline", "--release", "--manifest-path", os.path.join(REPO, "Cargo.toml")]
            sub = "release"
        elif profile == "tsan":
            cmd = ["cargo", "+nightly", "build", "--offline", "--features", "verif", "-Zbuild-std", "--target",
                   "x86_64-unknown-linux-gnu", "--manifest-path", os.path.join(REPO, "Cargo.toml")]
            env["RUSTFLAGS"] = "-Zsanitizer=thread"
            sub = os.path.join("x86_64-unknown-linux-gnu", "debug")
        t0 = time.time()
        p = subprocess.run(cmd, env=env, stdout=subprocess.PIPE, stderr=subprocess.STDOUT, text=True)
        if p.returncode != 0:
            sys.stdout.write(p.stdout[-4000:])
            raise Inconclusive("build of %s (%s) failed" % (REPO, profile))
        binary = os.path.join(target, sub, "rusty-blockparser")
        if not os.path.exists(binary):
            raise Inconclusive("binary missing after build: %s" % binary)
        return binary
    finally:
        fcntl.flock(lock, fcntl.LOCK_UN)
        lock.close()


def ldbtool():
    path = os.path.join(BUILD, "ldbtool", "release", "ldbtool")
    if not os.path.exists(path):
        env = _cargo_env(os.path.join(BUILD, "ldbtool"))
        os.makedirs(BUILD, exist_ok=True)
        lock = open(os.path.join(BUILD, ".lock-ldbtool"), "w")
        fcntl.flock(lock, fcntl.LOCK_EX)
        try:
            if not os.path.exists(path):
                p = subprocess.run(["cargo", "build", "--release", "--offline", "--manifest-path",
                                    os.path.join(VERIF, "tools", "ldbtool", "Cargo.toml")], env=env,
                                   stdout=subprocess.PIPE, stderr=subprocess.STDOUT, text=True)
                if p.returncode != 0:
                    sys.stdout.write(p.stdout[-3000:])
                    raise Inconclusive("ldbtool build failed")
        finally:
            fcntl.flock(lock, fcntl.LOCK_UN)
            lock.close()
    return path


class Proc:
    __slots__ = ("rc", "out", "err", "timed_out", "wall")

    def __init__(self, rc, out, err, timed_out, wall):
        self.rc, self.out, self.err, self.timed_out, self.wall = rc, out, err, timed_out, wall


def _descendants(pid):
    """pid and every live descendant (children started by tracers / wrappers included)"""
    kids = {}
    for d in os.listdir("/proc"):
        if d.isdigit():
            try:
                with open("/proc/%s/stat" % d) as f:
                    st = f.read()
                ppid = int(st[st.rindex(")") + 2:].split()[1])
                kids.setdefault(ppid, []).append(int(d))
            except (OSError, ValueError):
                pass
    out, todo = [], [pid]
    while todo:
        x = todo.pop()
        out.append(x)
        todo.extend(kids.get(x, []))
    return out


def _progress_sample(pid):
    """(total CPU ticks, set of thread states) over the process tree; None if it is gone"""
    ticks, states = 0, set()
    for p in _descendants(pid):
        try:
            for t in os.listdir("/proc/%d/task" % p):
                with open("/proc/%d/task/%s/stat" % (p, t)) as f:
                    st = f.read()
                fld = st[st.rindex(")") + 2:].split()
                states.add(fld[0])
                ticks += int(fld[11]) + int(fld[12])
        except (OSError, ValueError, IndexError):
            pass
    return (ticks, frozenset(states)) if states else None


HANG_RC = -998


def run(argv, env=None, stdin=None, timeout=WATCHDOG, rlimits=None, ignore_sigxfsz=False, cwd=None, text=True, user=None):
    """Runs a process with a generous watchdog. rlimits: dict name -> value (soft=hard). user: (uid, gid) to run as (needs root).
    Two different ways of not finishing are told apart: a process that is still consuming CPU when the watchdog fires is *slow* (timed_out:
    inconclusive for the caller); a process whose whole tree has consumed no CPU at all and has every thread asleep (state S) for three
    samples 5 s apart, after at least 15 s, is *hung* - a deadlock, not a slow machine: it is killed and reported with rc = HANG_RC and a
    HANG line on stderr, which every oracle treats like any other abnormal exit."""
    e = dict(os.environ)
    e.pop("RUST_LOG", None)
    e["RUST_BACKTRACE"] = "0"
    if env:
        e.update(env)

    def pre():
        if rlimits:
            for k, v in rlimits.items():
                resource.setrlimit(getattr(resource, k), (v, v))
        if ignore_sigxfsz:
            signal.signal(signal.SIGXFSZ, signal.SIG_IGN)
        if user:
            os.setgroups([])
            os.setgid(user[1])
            os.setuid(user[0])

    t0 = time.time()
    if text and isinstance(stdin, str):
        stdin = stdin.encode("utf-8")
    dec = (lambda b: (b or b"").decode("utf-8", errors="replace")) if text else (lambda b: b or b"")
    fin = None
    if stdin is not None:
        # the input comes from an unlinked temporary file, not from a pipe fed by communicate(): CPython does not resume sending the
        # rest of `input` when communicate() is called again after a timeout (the child would wait for it forever)
        import tempfile
        fin = tempfile.TemporaryFile()
        fin.write(stdin)
        fin.seek(0)
    p = subprocess.Popen(argv, env=e, stdin=fin, stdout=subprocess.PIPE, stderr=subprocess.PIPE,
                         preexec_fn=pre if (rlimits or ignore_sigxfsz or user) else None, cwd=cwd)
    if fin is not None:
        fin.close()
    first, same, last = True, 0, None
    hung = False
    while True:
        try:
            # decode by hand: text mode would translate "\r" (possible inside OP_RETURN payloads) into "\n"
            out, err = p.communicate(timeout=5)
            return Proc(p.returncode, dec(out), dec(err), False, time.time() - t0)
        except subprocess.TimeoutExpired:
            first = False
            el = time.time() - t0
            smp = _progress_sample(p.pid)
            if smp is not None and smp == last and smp[1] <= {"S"}:
                same += 1
            else:
                same = 0
            last = smp
            if el >= 15 and same >= 2:
                hung = True
                if os.environ.get("VERIF_HANG_DEBUG"):
                    try:
                        info = []
                        for q in _descendants(p.pid):
                            for t in os.listdir("/proc/%d/task" % q):
                                info.append("%s:%s:%s" % (q, t, open("/proc/%d/task/%s/wchan" % (q, t)).read()))
                        sys.stderr.write("HANGDEBUG argv=%s input_len=%s offset=%s stdin_closed=%s threads=%s\n" % (
                            argv[:2], len(p._input or b""), getattr(p, "_input_offset", None), p.stdin.closed if p.stdin else None, info[:6]))
                    except Exception as ex:
                        sys.stderr.write("HANGDEBUG failed %s\n" % ex)
            if hung or el >= timeout:
                for q in reversed(_descendants(p.pid)):
                    try:
                        os.kill(q, signal.SIGKILL)
                    except OSError:
                        pass
                try:
                    out, err = p.communicate(timeout=30)
                except subprocess.TimeoutExpired:
                    out, err = b"", b""
                if hung:
                    return Proc(HANG_RC, dec(out), dec(err) + "\nHANG: the process consumed no CPU time and all its threads were asleep for at least 10 s "
                                "(%.0f s after start); killed by the harness" % el, False, time.time() - t0)
                return Proc(None, dec(out), dec(err), True, time.time() - t0)


def run_suspended(argv, env, event_log, pauses=(10.4,), marker='"ev":"deliver"', every=300, timeout=WATCHDOG, cwd=None, while_stopped=None, send_signal=None):
    """Runs the process and suspends it (SIGSTOP ... SIGCONT, what ^Z / a laptop lid / a frozen cgroup do to a long job) once the hook
    event log shows that blocks are being delivered; further pauses follow after `every` more events. Wall-clock time passes for the
    process while it does nothing, so code that depends on elapsed time (the progress report every 10 s) runs. Returns (Proc, pauses
    that took effect while the process was demonstrably alive)."""
    import tempfile
    e = dict(os.environ)
    e.pop("RUST_LOG", None)
    e["RUST_BACKTRACE"] = "0"
    e.update(env or {})
    e["RBP_VERIF_LOG"] = event_log
    if os.path.exists(event_log):
        os.unlink(event_log)
    fo, fe = tempfile.TemporaryFile(), tempfile.TemporaryFile()
    t0 = time.time()
    p = subprocess.Popen(argv, env=e, stdout=fo, stderr=fe, cwd=cwd)
    hit = 0
    seen_target = 1
    try:
        for pause in pauses:
            while p.poll() is None and time.time() - t0 < timeout:
                try:
                    with open(event_log, "rb") as f:
                        n = f.read().count(marker.encode())
                except FileNotFoundError:
                    n = 0
                if n >= seen_target:
                    seen_target = n + every
                    break
                time.sleep(0.0005)
            if p.poll() is not None:
                break
            os.kill(p.pid, signal.SIGSTOP)
            if while_stopped:
                time.sleep(0.02)          # let the stop take effect before the surroundings change
                while_stopped()
            was_alive = p.poll() is None
            if send_signal and was_alive:
                os.kill(p.pid, send_signal)      # delivered at the latest when the process continues
            time.sleep(pause)
            alive = (p.poll() is None) or bool(send_signal and was_alive)
            try:
                os.kill(p.pid, signal.SIGCONT)
            except ProcessLookupError:
                pass                              # the signal has already ended it
            if alive:
                hit += 1
        try:
            p.wait(timeout=max(1, timeout - (time.time() - t0)))
            timed_out = False
        except subprocess.TimeoutExpired:
            p.kill()
            p.wait()
            timed_out = True
    finally:
        if p.poll() is None:
            p.kill()
    fo.seek(0)
    fe.seek(0)
    dec = lambda b: b.decode("utf-8", errors="replace")
    return Proc(None if timed_out else p.returncode, dec(fo.read()), dec(fe.read()), timed_out, time.time() - t0), hit


def eval_scripts(binary, items, chunk=20000, jobs=None):
    """items: list of (version_id:int, script:bytes). Returns list of (pattern, address|None, payload bytes|None)
    through the guarded script-eval tool mode (H4) of the binary."""
    from concurrent.futures import ThreadPoolExecutor
    chunks = [items[i:i + chunk] for i in range(0, len(items), chunk)]

    def one(ch):
        inp = "".join("%d %s\n" % (v, s.hex()) for v, s in ch)
        p = run([binary], env={"RBP_VERIF_EVAL": "1"}, stdin=inp, timeout=600)
        if p.timed_out or p.rc != 0:
            raise Inconclusive("script-eval tool mode failed rc=%s err=%s" % (p.rc, p.err[-300:]))
        lines = p.out.split("\n")
        if lines and lines[-1] == "":
            lines.pop()
        if len(lines) != len(ch):
            raise Inconclusive("script-eval tool mode returned %d lines for %d scripts" % (len(lines), len(ch)))
        res = []
        for ln in lines:
            f = ln.split("\t")
            pat = f[0]
            addr = None if f[1] == "-" else f[1]
            if pat == "PANIC":
                res.append(("PANIC", f[1], None))
            else:
                res.append((pat, addr, bytes.fromhex(f[2][1:]) if f[2].startswith("x") else None))
        return res

    with ThreadPoolExecutor(max_workers=jobs or NPROC) as ex:
        out = []
        for r in ex.map(one, chunks):
            out.extend(r)
    return out


# ---------------------------------------------------------------- known findings
def load_known():
    known = {}
    if os.path.exists(KNOWN_FILE):
        for ln in open(KNOWN_FILE):
            ln = ln.strip()
            if ln.startswith("known:"):
                fields = dict(f.split("=", 1) for f in ln[6:].split() if "=" in f)
                rest = ln.split("sig=" + fields.get("sig", ""), 1)[-1].strip()
                known[(fields.get("property"), fields.get("sig"))] = rest
    return known


class Check:
    """Bookkeeping of one check run."""

    def __init__(self, pid, level="exploration"):
        self.pid = pid
        self.level = level
        self.tier = os.environ.get("VERIF_TIER", "quick")
        if self.tier not in ("quick", "thorough"):
            self.tier = "quick"
        self.seed = int(os.environ.get("VERIF_SEED", "1"))
        self.t0 = time.time()
        self.violations = []       # (sig, detail, replay path)
        self.known_hits = {}       # sig -> count
        self.inconclusive = []     # reasons
        self.evaluations = 0
        self.shapes = set()
        self.samples = []
        self.counters = {}
        self.known = load_known()
        self.workdir = os.path.join(WORK, "%s-%d" % (pid, os.getpid()))
        shutil.rmtree(self.workdir, ignore_errors=True)
        os.makedirs(self.workdir, exist_ok=True)
        self._replay_n = 0

    @property
    def thorough(self):
        return self.tier == "thorough"

    def rng(self, *salt):
        return random.Random("%s|%s|%s" % (self.pid, self.seed, "|".join(str(s) for s in salt)))

    def count(self, key, n=1):
        self.counters[key] = self.counters.get(key, 0) + n

    def shape(self, sig):
        self.shapes.add(sig if isinstance(sig, str) else json.dumps(sig, sort_keys=True, default=str))

    def sample(self, obj, limit=6):
        if len(self.samples) < limit:
            self.samples.append(obj)

    def save_replay(self, spec):
        d = os.path.join(REPLAYS, self.pid)
        os.makedirs(d, exist_ok=True)
        self._replay_n += 1
        path = os.path.join(d, "%s-seed%d-%d-%d.json" % (self.tier, self.seed, os.getpid(), self._replay_n))
        with open(path, "w") as f:
            json.dump(spec, f, indent=1, default=_json_default)
        return path

    def violation(self, sig, detail, spec):
        """sig: signature string used to match known findings; detail: human text; spec: replay spec (dict)."""
        key = (self.pid, sig)
        if key in self.known:
            self.known_hits[sig] = self.known_hits.get(sig, 0) + 1
            return
        if len(self.violations) < 25:
            spec = dict(spec or {})
            spec["_violation"] = {"sig": sig, "detail": detail}
            path = self.save_replay(spec)
        else:
            path = self.violations[-1][2]
        self.violations.append((sig, detail, path))

    def note_inconclusive(self, reason):
        self.inconclusive.append(reason)

    def absorb(self, res):
        """Merges the result dict of a case worker: evaluations, shapes, counters, violations, inconclusive, sample"""
        self.evaluations += res.get("evaluations", 1)
        for s in res.get("shapes", []):
            self.shape(s)
        for k, v in res.get("counters", {}).items():
            if k.startswith("max_"):
                self.counters[k] = max(self.counters.get(k, 0), v)
            else:
                self.count(k, v)
        for v in res.get("violations", []):
            self.violation(v["sig"], v["detail"], res.get("spec"))
        for r in res.get("inconclusive", []):
            self.note_inconclusive(r)
        if "sample" in res:
            self.sample(res["sample"])

    def finish(self, rule, floor=None, assumptions=None, extra=None, exhaustive=None):
        """Writes evidence and exits. floor: dict counter-> minimum (non-vacuity); missing => inconclusive."""
        shutil.rmtree(self.workdir, ignore_errors=True)
        wall = time.time() - self.t0
        floor_fail = []
        for k, v in (floor or {}).items():
            have = self.counters.get(k, 0) if k != "_shapes" else len(self.shapes)
            if have < v:
                floor_fail.append("%s=%d<%d" % (k, have, v))
        cov = {
            "evaluations": int(self.evaluations),
            "distinct_nontrivial": len(self.shapes),
            "rule": rule,
            "samples": self.samples or [{"note": "no sample recorded"}],
            "counters": dict(sorted(self.counters.items())),
            "inconclusive_cases": len(self.inconclusive),
            "inconclusive_reasons": sorted(set(self.inconclusive))[:10],
            "known_findings_hit": self.known_hits,
            "repo": REPO,
        }
        if exhaustive is not None:
            cov["exhaustive"] = bool(exhaustive)
        if extra:
            cov.update(extra)
        ev = {
            "property_id": self.pid, "tier": self.tier, "seed": self.seed, "level": self.level,
            "coverage": cov, "assumptions": assumptions or [], "wall_s": round(wall, 2),
            "violations": len(self.violations),
        }
        os.makedirs(EVIDENCE, exist_ok=True)
        with open(os.path.join(EVIDENCE, self.pid + ".json"), "w") as f:
            json.dump(ev, f, indent=1, default=_json_default)
            f.write("\n")
        print("%s %s seed=%d: %d evaluations, %d distinct shapes, %d violations, %d inconclusive, %.1fs" % (
            self.pid, self.tier, self.seed, self.evaluations, len(self.shapes), len(self.violations), len(self.inconclusive), wall))
        for k, v in sorted(self.counters.items()):
            print("  %-40s %d" % (k, v))
        for r in sorted(set(self.inconclusive))[:5]:
            print("  inconclusive: %s" % r[:500])
        for sig, n in sorted(self.known_hits.items()):
            print("KNOWN-FINDING: property=%s sig=%s %s (seen %d times in this run)" % (self.pid, sig, self.known[(self.pid, sig)], n))
        if self.violations:
            seen = set()
            for sig, detail, path in self.violations:
                if (sig, path) in seen:
                    continue
                seen.add((sig, path))
                print("  violation sig=%s: %s" % (sig, detail[:600]))
                print("VIOLATION property=%s replay=%s" % (self.pid, path))
            sys.exit(1)
        if floor_fail or (self.inconclusive and self.evaluations == 0):
            print("INCONCLUSIVE property=%s non-vacuity floor not met: %s %s" % (self.pid, ",".join(floor_fail), self.inconclusive[:3]))
            sys.exit(2)
        sys.exit(0)


def _json_default(o):
    if isinstance(o, (bytes, bytearray)):
        return o.hex()
    if isinstance(o, set):
        return sorted(o)
    return str(o)


def parallel(fn, specs, jobs=None, desc=None):
    """Runs fn(spec) for every spec in a process pool; yields results. A crash of the harness in a worker is
    reported as an inconclusive case (never as a violation)."""
    jobs = jobs or NPROC
    if jobs == 1 or len(specs) <= 1:
        for s in specs:
            yield _guard(fn, s)
        return
    again = []
    with ProcessPoolExecutor(max_workers=jobs) as ex:
        futs = [ex.submit(_guard, fn, s) for s in specs]
        for f in as_completed(futs):
            r = f.result()
            if r.get("inconclusive") and not r.get("violations") and len(again) < 8:
                again.append(r)      # most often a watchdog on a loaded machine: try once more when the pool is idle
            else:
                yield r
    for r in again:
        r2 = _guard(fn, r["spec"])
        if r2.get("inconclusive"):
            r2["inconclusive"] = ["%s (twice)" % x for x in r2["inconclusive"]]
        yield r2


def _guard(fn, spec):
    try:
        r = fn(spec)
        r.setdefault("spec", spec)
        return r
    except Inconclusive as e:
        return {"spec": spec, "evaluations": 0, "inconclusive": [str(e)]}
    except Exception as e:  # harness error => inconclusive
        return {"spec": spec, "evaluations": 0, "inconclusive": ["harness error: %s: %s" % (type(e).__name__, traceback.format_exc()[-800:])]}


def main_wrapper(fn):
    try:
        fn()
    except Inconclusive as e:
        print("INCONCLUSIVE: %s" % e)
        sys.exit(2)


def replay_case(pid, case_fns, spec):
    """Re-runs one saved case: spec['case'] names the worker function."""
    fn = case_fns[spec["case"]]
    spec = {k: v for k, v in spec.items() if not k.startswith("_")}
    os.makedirs(os.path.join(WORK, "%s-replay-%d" % (pid, os.getpid())), exist_ok=True)
    spec["work"] = os.path.join(WORK, "%s-replay-%d" % (pid, os.getpid()))
    res = _guard(fn, spec)
    shutil.rmtree(spec["work"], ignore_errors=True)
    known = load_known()
    rc = 0
    for r in res.get("inconclusive", []):
        print("inconclusive: %s" % r)
    for v in res.get("violations", []):
        if (pid, v["sig"]) in known:
            print("KNOWN-FINDING: property=%s sig=%s %s" % (pid, v["sig"], known[(pid, v["sig"])]))
        else:
            print("  violation sig=%s: %s" % (v["sig"], v["detail"]))
            print("VIOLATION property=%s replay=(this file)" % pid)
            rc = 1
    if rc == 0:
        print("replay: property held on this case (%s)" % json.dumps(res.get("counters", {})))
    sys.exit(rc)


def viol(sig, detail):
    return {"sig": sig, "detail": detail}
