"""Long runs: one process that delivers more than 2^16 blocks. Anything a run accumulates (counters, tables, caches, open-file
bookkeeping, periodic clean-ups every N blocks or at round heights) only reaches its thresholds here; the short chains of the other
cases cannot show it. Shared by the checks of the five callbacks and of --verify: each compares its own callback's complete output with
the reference model."""
import os
import random
import shutil

from . import core, gen, harness, datadir, layouts, oracles
from .chain import COINS
from .core import viol


def long_chain(seed, coin, blocks, genesis):
    rng = random.Random("long|%s|%s|%d" % (seed, coin, blocks))
    chain = gen.simple_chain(rng, coin, blocks, genesis=genesis, max_tx=1)
    gen.vary_times(rng, chain, keep_first=True, pattern="backsteps")
    return chain


def long_case(spec):
    coin, cbname = spec["coin"], spec["callback"]
    from .chain import genesis_block
    verify = spec.get("verify", False)
    genesis = verify and genesis_block(coin) is not None and spec.get("start") is None
    chain = long_chain(spec["seed"], coin, spec["blocks"], genesis)
    rng = random.Random("longlayout|%s|%s" % (spec["seed"], spec["n"]))
    work = harness.fresh(os.path.join(spec["work"], "long%d" % spec["n"]))
    d = os.path.join(work, "d")
    kw, _desc, _ = layouts.make_layout(rng, chain, coin, assign="contiguous", nfiles=spec.get("nfiles", 3))
    datadir.write_datadir(d, COINS[coin], **kw)
    binary = core.build(spec.get("profile", "release"))
    dump = harness.fresh(os.path.join(work, "o"))
    s, e = spec.get("start"), spec.get("end")
    if verify and not genesis and s is None:
        s = 1
    p = harness.run_cb(binary, d, coin, cbname, dump, s, e, verify=verify, timeout=900)
    S = s or 0
    if cbname == "csvdump":
        bad = oracles.check_csvdump(p, dump, chain, coin, S, e)
    elif cbname == "unspentcsvdump":
        bad = oracles.check_unspent(p, dump, chain, coin, S, e)
    elif cbname == "balances":
        bad = oracles.check_balances(p, dump, chain, coin, S, e)
    elif cbname == "simplestats":
        bad = oracles.check_stats(p, chain, coin, S, e)
    else:
        bad = oracles.check_opreturn(p, chain, coin, S, e)
    what = "%s%s over a chain of %d blocks in one run (range %s..%s, coin=%s)" % (cbname, " --verify" if verify else "", len(chain), s, e, coin)
    v = [viol("long-run:" + sig, "%s [%s]" % (det, what)) for sig, det in bad[:2]]
    shutil.rmtree(work, ignore_errors=True)
    return {"evaluations": 1, "violations": v, "counters": {"runs": 1, "long_runs": 1, "long_run_blocks": len(chain)},
            "shapes": ["long-run|%s|%s|%s" % (cbname, "verify" if verify else "plain", ">2^16 blocks" if len(chain) > 65536 else "<=2^16 blocks")],
            "sample": {"kind": "long-run", "callback": cbname, "coin": coin, "blocks": len(chain), "verify": verify, "range": [s, e]}}
