"""Spend-history workloads for C07/C08: bounded-exhaustive event lanes and random long histories."""
import itertools
import struct

from .chain import Tx, TxIn, TxOut, Block, ZERO32, COINS
from .gen import rbytes, ChainBuilder, coinbase_tx, std_script, push
from .ser import hash160

EVENTS = "ANZMSFUDRLC"
# A create addr output   N create address-less outputs   Z zero-value addr output   M tx with many (260/300) outputs
# S spend most recent unspent addr output   F fan-in: spend every output of the lane's latest multi-output tx
# U spend an outpoint unknown to the chain   D duplicate: identical copy of the lane's first tx (same txid)
# R one tx referencing the same outpoint twice   L spender placed BEFORE the creating tx inside the same block
# C coinbase look-alike fan-in: first input is the null outpoint (0..0, 0xffffffff), further inputs spend real outputs


def p2pkh_for(tag: bytes):
    return b"\x76\xa9\x14" + hash160(tag) + b"\x88\xac"


class Lane:
    """One independent history. All scripts/values are derived from the lane id, so lanes never share txids."""

    def __init__(self, lane_id, many=260):
        self.id = lane_id
        self.n = 0
        self.created = []      # (Tx, index, has_addr) in creation order
        self.first_tx = None
        self.last_multi = None
        self.many = many

    def _tag(self):
        self.n += 1
        return struct.pack("<QI", self.id, self.n)

    def _unknown_in(self):
        t = self._tag()
        return TxIn(hash160(t) + t[:12], self.n & 3, b"", 0xFFFFFFFF)

    def _mk(self, ins, outs):
        tx = Tx(1, ins, outs, 0)
        if self.first_tx is None:
            self.first_tx = tx
        for i, o in enumerate(outs):
            self.created.append([tx, i, None])
        if len(outs) > 1:
            self.last_multi = tx
        return tx

    def _addr_out(self, value=None):
        t = self._tag()
        return TxOut(1000 + self.n if value is None else value, p2pkh_for(t))

    def _recent_unspent(self, spent):
        for tx, i, _ in reversed(self.created):
            if (tx.txid, i) not in spent and tx.outs[i].script[:1] == b"\x76":
                return tx, i
        return None

    def apply(self, ev, spent):
        """Returns the list of txs this event adds (in block order). `spent` is the lane's own set of outpoints it
        referenced so far (only used to pick targets; the oracle is the global model)."""
        if ev == "A":
            return [self._mk([self._unknown_in()], [self._addr_out()])]
        if ev == "N":
            t = self._tag()
            return [self._mk([self._unknown_in()], [TxOut(5, b"\x6a" + push(t)), TxOut(6, b"\x51" + push(b"\x02" + t.ljust(32, b"\0")) + b"\x51\xae"), TxOut(7, b"\x75\x51")])]
        if ev == "Z":
            return [self._mk([self._unknown_in()], [self._addr_out(0)])]
        if ev == "M":
            return [self._mk([self._unknown_in()], [self._addr_out() for _ in range(self.many)])]
        if ev == "S":
            tgt = self._recent_unspent(spent)
            if tgt is None:
                return [self._mk([self._unknown_in()], [self._addr_out()])]
            spent.add((tgt[0].txid, tgt[1]))
            return [self._mk([TxIn(tgt[0].txid, tgt[1], b"", 0xFFFFFFFF)], [self._addr_out()])]
        if ev == "F":
            m = self.last_multi
            if m is None:
                return [self._mk([self._unknown_in()], [self._addr_out(), self._addr_out()])]
            ins = [TxIn(m.txid, i, b"", 0xFFFFFFFF) for i in range(len(m.outs))]
            for i in range(len(m.outs)):
                spent.add((m.txid, i))
            return [self._mk(ins, [self._addr_out(), self._addr_out()])]
        if ev == "U":
            return [self._mk([self._unknown_in(), self._unknown_in()], [self._addr_out()])]
        if ev == "D":
            if self.first_tx is None:
                return [self._mk([self._unknown_in()], [self._addr_out()])]
            f = self.first_tx
            dup = Tx(f.version, f.ins, f.outs, f.locktime)
            for i in range(len(f.outs)):
                spent.discard((f.txid, i))
            return [dup]
        if ev == "R":
            tgt = self._recent_unspent(spent)
            if tgt is None:
                u = self._unknown_in()
                return [self._mk([u, TxIn(u.prev_txid, u.prev_index, b"\x51", 0)], [self._addr_out()])]
            spent.add((tgt[0].txid, tgt[1]))
            return [self._mk([TxIn(tgt[0].txid, tgt[1], b"", 0xFFFFFFFF), TxIn(tgt[0].txid, tgt[1], b"\x00", 1)], [self._addr_out()])]
        if ev == "C":
            ins = [TxIn(ZERO32, 0xFFFFFFFF, struct.pack("<QI", self.id, self.n), 0xFFFFFFFF)]
            tgt = self._recent_unspent(spent)
            if tgt is not None:
                spent.add((tgt[0].txid, tgt[1]))
                ins.append(TxIn(tgt[0].txid, tgt[1], b"", 0xFFFFFFFF))
            else:
                ins.append(self._unknown_in())
            return [self._mk(ins, [self._addr_out()])]
        if ev == "L":
            creator = Tx(1, [self._unknown_in()], [self._addr_out(), self._addr_out()], 0)
            spender = Tx(1, [TxIn(creator.txid, 0, b"", 0xFFFFFFFF)], [self._addr_out()], 0)
            if self.first_tx is None:
                self.first_tx = spender
            for tx in (spender, creator):
                for i in range(len(tx.outs)):
                    self.created.append([tx, i, None])
            self.last_multi = creator
            return [spender, creator]
        raise KeyError(ev)


def compositions(k, maxparts):
    """all ways to cut k events into 1..maxparts non-empty consecutive groups"""
    out = []
    for parts in range(1, min(k, maxparts) + 1):
        for cuts in itertools.combinations(range(1, k), parts - 1):
            b = [0] + list(cuts) + [k]
            out.append([b[i + 1] - b[i] for i in range(parts)])
    return out


def lanes_chain(rng, coin, sequences, split, lane_base=0, many=260, interleave=False):
    """Chain: filler block 0, then len(split) blocks carrying the events of all lanes (group g of every lane goes to
    block 1+g), then a filler tip. Returns chain [(h, Block)] and lane map txid_hex -> sequence string."""
    coin = COINS[coin] if isinstance(coin, str) else coin
    lanes = [(Lane(lane_base + i, many), seq, set()) for i, seq in enumerate(sequences)]
    blocks_txs = [[] for _ in split]
    owner = {}
    for lane, seq, spent in lanes:
        pos = 0
        for g, cnt in enumerate(split):
            for ev in seq[pos:pos + cnt]:
                for tx in lane.apply(ev, spent):
                    blocks_txs[g].append(tx)
                    owner[tx.txid_hex] = seq
            pos += cnt
    if interleave:
        for txs in blocks_txs:
            rng.shuffle(txs)   # only used for histories without intra-block dependencies
    cb = ChainBuilder(rng, coin)
    cb.add_block(n_tx=1)
    for txs in blocks_txs:
        cb.add_block(txs=txs)
    cb.add_block(n_tx=1)
    return cb.chain(), owner


def all_sequences(k, alphabet=EVENTS):
    return ["".join(p) for p in itertools.product(alphabet, repeat=k)]


def random_history_chain(rng, coin, n_events, n_blocks, addr_pool=None, big_values=False):
    """Long random history with shared state: creations, spends (also inside the creating block, of unknown outpoints,
    double references), duplicate txids, address reuse."""
    coin = COINS[coin] if isinstance(coin, str) else coin
    cb = ChainBuilder(rng, coin)
    pool = addr_pool or [rbytes(rng, 32) for _ in range(max(3, n_events // 20))]
    kinds_addr = ["p2pkh", "p2pk33", "p2pk65", "p2sh"] + (["p2wpkh", "p2wsh", "p2tr"] if coin.bitcoin_rules else [])
    kinds_no = ["opreturn", "nonstd"] + (["multisig", "unspendable"] if coin.bitcoin_rules else ["multisig23", "segwitlike"])
    per_block = max(1, n_events // n_blocks)
    dup_candidates = []
    for b in range(n_blocks):
        txs = []
        local = []
        for _ in range(per_block):
            r = rng.random()
            nout = rng.choice([1, 1, 2, 3, 8])
            outs = []
            for _ in range(nout):
                if rng.random() < 0.8:
                    key = rng.choice(pool)
                    kind = rng.choice(kinds_addr)
                    val = rng.choice([0, 1, 546, rng.randint(0, 10**10)]) if not big_values else rng.choice([2**32 - 1, 2**32, 2**40 + 7, 2**58, rng.getrandbits(59)])
                    outs.append(TxOut(val, std_script(rng, coin, kind, key=key)))
                else:
                    outs.append(TxOut(rng.randint(0, 1000), std_script(rng, coin, rng.choice(kinds_no))))
            if r < 0.25 or not cb.spendable:
                ins = [TxIn(rbytes(rng, 32), rng.randint(0, 2), b"", 0xFFFFFFFF)]
            elif r < 0.29:
                # fan-in whose first (or a later) input is the null outpoint
                txid, idx, _ = cb.spendable.pop(rng.randrange(len(cb.spendable)))
                ins = [TxIn(ZERO32, 0xFFFFFFFF, rbytes(rng, 4), 0xFFFFFFFF), TxIn(txid, idx, b"", 0xFFFFFFFF)]
                if rng.random() < 0.3:
                    ins.reverse()
            elif r < 0.35 and local:
                t0 = rng.choice(local)
                ins = [TxIn(t0.txid, rng.randrange(len(t0.outs)), b"", 0xFFFFFFFF)]      # spend inside the creating block
            elif r < 0.40 and cb.spendable:
                txid, idx, _ = rng.choice(cb.spendable)                                  # double reference / re-spend
                ins = [TxIn(txid, idx, b"", 0), TxIn(txid, idx, b"", 1)]
            else:
                ins = []
                for _ in range(rng.choice([1, 1, 2, 5])):
                    if cb.spendable:
                        txid, idx, _ = cb.spendable.pop(rng.randrange(len(cb.spendable)))
                        ins.append(TxIn(txid, idx, rbytes(rng, rng.choice([0, 72])), 0xFFFFFFFF))
                if not ins:
                    ins = [TxIn(rbytes(rng, 32), 0, b"", 0xFFFFFFFF)]
            t = Tx(rng.choice([1, 2]), ins, outs, 0)
            txs.append(t)
            local.append(t)
            if rng.random() < 0.05:
                dup_candidates.append(t)
        if dup_candidates and rng.random() < 0.3:
            f = rng.choice(dup_candidates)
            txs.append(Tx(f.version, f.ins, f.outs, f.locktime))                         # duplicate txid
        cb.add_block(txs=txs)
    return cb.chain()
