"""Turns a logical chain + layout description into a data directory (blk files, xor.dat, LevelDB index)."""
import os
import random
import struct
import subprocess
import shutil

from .ser import core_varint
from .core import ldbtool, Inconclusive, run

# Bitcoin Core nStatus
VALID_HEADER, VALID_TREE, VALID_TRANSACTIONS, VALID_CHAIN, VALID_SCRIPTS = 1, 2, 3, 4, 5
HAVE_DATA, HAVE_UNDO, FAILED_VALID, FAILED_CHILD, OPT_WITNESS = 8, 16, 32, 64, 128
ACTIVE = VALID_SCRIPTS | HAVE_DATA | HAVE_UNDO


class Placement:
    """Where one serialised block goes and how (whether) the index names it."""

    def __init__(self, block, height, file=0, status=ACTIVE, indexed=True, gap=b"", at=None, size_prefix=None,
                 magic=None, ntx=None, undo_pos=None, raw=None):
        self.block = block
        self.height = height
        self.file = file
        self.status = status
        self.indexed = indexed
        self.gap = gap              # bytes written before the magic
        self.at = at                # absolute offset of the block *data* (sparse seek), overrides gap
        self.size_prefix = size_prefix
        self.magic = magic
        self.ntx = ntx
        self.undo_pos = undo_pos
        self.raw = raw              # override of the serialised block bytes (corruption experiments)
        self.offset = None          # filled by write


class HeaderOnly:
    """Index record without block data (status has neither HAVE_DATA nor HAVE_UNDO)."""

    def __init__(self, block, height, status=VALID_TREE, ntx=0, nfile=0, undo_pos=8):
        self.block, self.height, self.status, self.ntx = block, height, status, ntx
        self.nfile, self.undo_pos = nfile, undo_pos     # only serialised when the status carries HAVE_UNDO (undo data kept, block data pruned)


def index_value(height, status, ntx, header80, nfile=None, datapos=None, undopos=None, client_version=270000):
    v = core_varint(client_version) + core_varint(height) + core_varint(status) + core_varint(ntx)
    if status & (HAVE_DATA | HAVE_UNDO):
        v += core_varint(nfile)
    if status & HAVE_DATA:
        v += core_varint(datapos)
    if status & HAVE_UNDO:
        v += core_varint(undopos if undopos is not None else 8)
    return v + header80


def default_name(n, pad=5):
    return "blk%0*d.dat" % (pad, n)


def write_datadir(path, coin, placements, header_only=(), xor_key=None, names=None, extra_keys=(), extra_files=(),
                  index_opts=None, order=None, symlink_files=()):
    """Writes the directory. placements are written file by file in list order (or `order`: file -> list of indices).
    names: file number -> file name. extra_keys: list of (key bytes, value bytes). extra_files: (name, bytes | None=dir).
    Returns dict with per-file sizes."""
    os.makedirs(path, exist_ok=True)
    names = names or {}
    by_file = {}
    for i, p in enumerate(placements):
        by_file.setdefault(p.file, []).append(i)
    if order:
        by_file.update(order)
    magic = struct.pack("<I", coin.magic)
    for fno, idxs in by_file.items():
        fname = os.path.join(path, names.get(fno, default_name(fno)))
        with open(fname, "wb") as f:
            for i in idxs:
                p = placements[i]
                data = p.raw if p.raw is not None else p.block.ser() + getattr(p.block, "slack", b"")
                size = len(data) if p.size_prefix is None else p.size_prefix
                if p.at is not None:
                    f.seek(p.at - 8)
                else:
                    f.write(p.gap)
                f.write((p.magic if p.magic is not None else magic) + struct.pack("<I", size & 0xFFFFFFFF))
                p.offset = f.tell()
                f.write(data)
    if xor_key is not None:
        with open(os.path.join(path, "xor.dat"), "wb") as f:
            f.write(xor_key)
        if any(xor_key):
            for fno in by_file:
                xor_file(os.path.join(path, names.get(fno, default_name(fno))), xor_key)
    if symlink_files:
        # "old block files moved to another disk": the file lives elsewhere under the same name, the data directory holds an absolute
        # symbolic link to it (xor.dat and index/ stay in the data directory)
        other = os.path.abspath(path).rstrip("/") + ".elsewhere"
        os.makedirs(other, exist_ok=True)
        for fno in symlink_files:
            if fno in by_file:
                name = names.get(fno, default_name(fno))
                os.rename(os.path.join(path, name), os.path.join(other, name))
                os.symlink(os.path.join(other, name), os.path.join(path, name))
        if xor_key is not None:
            # the key file is a link as well - to a file of another name (a key store), absolute or relative: the key is whatever
            # opening <datadir>/xor.dat yields
            target = os.path.join(other, "node-obfuscation.key")
            os.rename(os.path.join(path, "xor.dat"), target)
            rel = len(by_file) % 2 == 1
            os.symlink(os.path.join("..", os.path.basename(other), "node-obfuscation.key") if rel else target, os.path.join(path, "xor.dat"))
    for name, content in extra_files:
        full = os.path.join(path, name)
        if content is None:
            os.makedirs(full, exist_ok=True)
        elif isinstance(content, tuple) and content[0] == "symlink":
            if not os.path.lexists(full):
                os.symlink(content[1], full)
        else:
            with open(full, "wb") as f:
                f.write(content)
    pairs = []
    index_opts = dict(index_opts or {})
    vary = index_opts.pop("vary_records", None)
    vrng = random.Random("records|%s" % vary) if vary is not None else None
    for p in placements:
        if not p.indexed:
            continue
        ntx = p.ntx if p.ntx is not None else len(p.block.txs)
        status, undo, cver = p.status, p.undo_pos, 270000
        if vrng is not None and p.status == ACTIVE:
            # what real nodes of different ages write for an active-chain block: with or without undo data, with the witness flag,
            # other client versions, any nTx / undo position (fields no reader of block data depends on)
            status = vrng.choice([ACTIVE, ACTIVE & ~HAVE_UNDO, ACTIVE | OPT_WITNESS, (ACTIVE & ~HAVE_UNDO) | OPT_WITNESS, VALID_CHAIN | HAVE_DATA | HAVE_UNDO])
            undo = vrng.choice([None, 8, 2**31, 2**40 + 5, 0])
            cver = vrng.choice([270000, 70001, 99900, 150000, 280100, 1, 2**31, 2**35 + 7])
            ntx = vrng.choice([ntx, ntx, 0, 1, 2**32 + 1])
        pairs.append((b"b" + p.block.hash, index_value(p.height, status, ntx, p.block.header(), p.file, p.offset, undo, client_version=cver)))
    for h in header_only:
        pairs.append((b"b" + h.block.hash, index_value(h.height, h.status, h.ntx, h.block.header(), h.nfile, None, h.undo_pos)))
    pairs.extend(extra_keys)
    if index_opts.get("churn") is not None:
        # history that would matter if a reader saw it: older versions of real keys that point at ANOTHER block's position or have no
        # position at all, and deleted 'b' records that claim an occupied height for another block's bytes
        crng = random.Random("churn-records|%s" % index_opts["churn"])
        real = [p for p in placements if p.indexed and p.offset is not None]
        older, ghosts = [], []
        if len(real) >= 2:
            for p in crng.sample(real, min(len(real), 40)):
                q = crng.choice(real)
                if crng.random() < 0.5:
                    older.append((b"b" + p.block.hash, index_value(p.height, VALID_TREE, 0, p.block.header())))
                else:
                    older.append((b"b" + p.block.hash, index_value(p.height, p.status, len(q.block.txs), p.block.header(), q.file, q.offset, None)))
                g = crng.choice(real)
                ghosts.append((b"b" + bytes(crng.getrandbits(8) for _ in range(32)),
                               index_value(p.height, ACTIVE, len(g.block.txs), g.block.header(), g.file, g.offset, 8)))
        index_opts["older"], index_opts["ghosts"] = older, ghosts
    write_index(os.path.join(path, "index"), pairs, **index_opts)
    return {"files": len(by_file), "records": len(pairs)}


def xor_file(fname, key):
    """XORs the file in place with the key repeating from offset 0, keeping holes sparse: only data extents
    (SEEK_DATA / SEEK_HOLE) are rewritten. Holes read as zeros and would have to become key bytes; they may stay
    holes because the generator guarantees that no indexed block overlaps a hole. Works on the raw descriptor
    (pread/pwrite) so that lseek() cannot confuse a buffered file object."""
    klen = len(key)
    size = os.path.getsize(fname)
    chunk = 1 << 20
    fd = os.open(fname, os.O_RDWR)
    try:
        pos = 0
        while pos < size:
            try:
                start = os.lseek(fd, pos, os.SEEK_DATA)
            except OSError:
                break
            end = min(os.lseek(fd, start, os.SEEK_HOLE), size)
            p = start
            while p < end:
                n = min(chunk, end - p)
                buf = os.pread(fd, n, p)
                n = len(buf)
                if n == 0:
                    break
                off = p % klen
                k = (key * (n // klen + 2))[off:off + n]
                out = (int.from_bytes(buf, "little") ^ int.from_bytes(k, "little")).to_bytes(n, "little")
                os.pwrite(fd, out, p)
                p += n
            pos = max(end, pos + 1)
    finally:
        os.close(fd)
    if os.path.getsize(fname) != size:
        raise Inconclusive("xor_file changed the size of %s" % fname)


def write_index(path, pairs, write_buffer=4 << 20, sessions=1, compact=False, shuffle_rng=None, churn=None, older=(), ghosts=(), append=False):
    """churn (a seed): the database gets a HISTORY, as the index of a real node has one - a third of the keys are first written with an
    older value (a record is rewritten whenever the block's status changes: header only, then data, then validity raised), keys that do
    not belong to the final content are written and deleted again (some of them 'b' records of blocks that would win a height), spread
    over several sessions so that old versions, tombstones and final values sit in different tables / the log. The key/value CONTENT a
    reader sees is exactly `pairs`."""
    if os.path.exists(path) and not append:
        shutil.rmtree(path)          # append=True: a later session of the node on the existing database
    pairs = list(pairs)
    if shuffle_rng is not None:
        shuffle_rng.shuffle(pairs)
    lines = ["%s %s" % (k.hex(), v.hex()) for k, v in pairs]
    if churn is not None:
        import random as _random
        crng = _random.Random("churn|%s" % churn)
        older_extra, ghosts_extra = list(older), list(ghosts)
        older, ghosts, dels = [], [], []
        for k, v in pairs:
            r = crng.random()
            if r < 0.33:
                # an older value of the same key: shorter (header-only layout), garbage, or another record's value
                ov = crng.choice([v[:max(1, len(v) - crng.randint(1, 12))], bytes(crng.getrandbits(8) for _ in range(crng.randint(1, 90))),
                                  pairs[crng.randrange(len(pairs))][1]])
                older.append("%s %s" % (k.hex(), ov.hex()))
        sample_vals = [v for k, v in pairs if k[:1] == b"b"]
        for _ in range(max(3, len(pairs) // 4)):
            gk = crng.choice([b"b", b"b", b"f", b"t"]) + bytes(crng.getrandbits(8) for _ in range(32))
            gv = crng.choice(sample_vals) if sample_vals and crng.random() < 0.7 else bytes(crng.getrandbits(8) for _ in range(crng.randint(1, 100)))
            ghosts.append("%s %s" % (gk.hex(), gv.hex()))
            dels.append("del %s" % gk.hex())
        final_keys = {k for k, _ in pairs}
        for k, v in older_extra:
            older.append("%s %s" % (k.hex(), v.hex()))
        for k, v in ghosts_extra:
            if k not in final_keys:
                ghosts.append("%s %s" % (k.hex(), v.hex()))
                dels.append("del %s" % k.hex())
        crng.shuffle(ghosts)
        lines = older + ghosts + lines + dels
        sessions = max(sessions, 3)
        write_buffer = min(write_buffer, 16384)
    tmp = path + ".pairs"
    with open(tmp, "w") as f:
        for ln in lines:
            f.write(ln + "\n")
    argv = [ldbtool(), "write", path, tmp, str(write_buffer), str(sessions)]
    if compact:
        argv.append("compact")
    p = run(argv, timeout=300)
    os.unlink(tmp)
    if p.rc != 0:
        raise Inconclusive("ldbtool write failed: %s" % p.err[-300:])


def dump_index(path, scratch):
    """Key/value content of an index (reads a *copy*, so the original is untouched)."""
    cp = os.path.join(scratch, "index-copy-%d" % os.getpid())
    shutil.rmtree(cp, ignore_errors=True)
    shutil.copytree(path, cp)
    try:
        os.unlink(os.path.join(cp, "LOCK"))
    except OSError:
        pass
    p = run([ldbtool(), "dump", cp], timeout=300)
    shutil.rmtree(cp, ignore_errors=True)
    if p.rc != 0:
        raise Inconclusive("ldbtool dump failed: %s" % p.err[-300:])
    return p.out


def clone_datadir(src, dst):
    """Private copy for a parallel run: own index copy, hard links to blk files / xor.dat."""
    os.makedirs(dst, exist_ok=True)
    for name in os.listdir(src):
        s = os.path.join(src, name)
        d = os.path.join(dst, name)
        if name == "index":
            shutil.copytree(s, d)
        elif os.path.isdir(s):
            os.makedirs(d, exist_ok=True)
        else:
            os.link(s, d)
    return dst
