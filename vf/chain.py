"""Logical chain objects and their independent serialisation."""
import struct
from .ser import sha256d, compact_size, rhex

ZERO32 = b"\0" * 32


class Coin:
    def __init__(self, name, magic, version_byte, genesis_hash, auxpow=None, hrp=None, p2sh_byte=5):
        self.name = name
        self.magic = magic              # u32, stored little-endian in blk files
        self.version_byte = version_byte
        self.genesis_hash = genesis_hash  # display hex
        self.auxpow = auxpow            # activation version or None
        self.hrp = hrp                  # bech32 hrp (bitcoin/testnet3 only)
        self.p2sh_byte = p2sh_byte
        self.bitcoin_rules = name in ("bitcoin", "testnet3")


# Public parameters of the supported coins (from the property statements / public documentation,
# not read out of the repo's types.rs).
COINS = {c.name: c for c in [
    Coin("bitcoin", 0xD9B4BEF9, 0x00, "000000000019d6689c085ae165831e934ff763ae46a2a6c172b3f1b60a8ce26f", hrp="bc", p2sh_byte=0x05),
    Coin("testnet3", 0x0709110B, 0x6F, "000000000933ea01ad0ee984209779baaec3ced90fa3f408719526f8d77f4943", hrp="tb", p2sh_byte=0xC4),
    Coin("namecoin", 0xFEB4BEF9, 0x34, "000000000062b72c5e2ceb45fbc8587e807c155b0da735e6483dfba2f0a9c770", auxpow=0x10101),
    Coin("litecoin", 0xDBB6C0FB, 0x30, "12a765e31ffd4059bada1e25190f6e98c99d9714d334efa41a195a7e7e04bfe2"),
    Coin("dogecoin", 0xC0C0C0C0, 0x1E, "1a91e3dace36e2be3bf030a65679fe821aa1d6ef92e7c9902eb318182c355691", auxpow=0x620102),
    Coin("myriadcoin", 0xEE7645AF, 0x32, "00000ffde4c020b5938441a0ea3d314bf619eff0b38f32f78f7583cffa1ea485"),
    Coin("unobtanium", 0x03B5D503, 0x82, "000004c2fc5fffb810dccc197d603690099a68305232e552d96ccbe8e2c52b75"),
    Coin("noteblockchain", 0xE3EDE5F4, 0x35, "270f3e7b185c412d57ba913d10658df54f15201a67d736cb4071a4ec4eb54836"),
]}
COIN_NAMES = list(COINS)
FORK_COINS = [c for c in COIN_NAMES if not COINS[c].bitcoin_rules]


class TxIn:
    __slots__ = ("prev_txid", "prev_index", "script_sig", "sequence", "witness")

    def __init__(self, prev_txid=ZERO32, prev_index=0xFFFFFFFF, script_sig=b"", sequence=0xFFFFFFFF, witness=None):
        self.prev_txid = prev_txid      # internal byte order
        self.prev_index = prev_index
        self.script_sig = script_sig
        self.sequence = sequence
        self.witness = witness or []    # list of byte strings

    def ser(self):
        return (self.prev_txid + struct.pack("<I", self.prev_index) + compact_size(len(self.script_sig))
                + self.script_sig + struct.pack("<I", self.sequence))


class TxOut:
    __slots__ = ("value", "script")

    def __init__(self, value=0, script=b""):
        self.value = value
        self.script = script

    def ser(self):
        return struct.pack("<Q", self.value) + compact_size(len(self.script)) + self.script


class Tx:
    def __init__(self, version=1, ins=None, outs=None, locktime=0, segwit=False):
        self.version = version
        self.ins = ins or []
        self.outs = outs or []
        self.locktime = locktime
        self.segwit = segwit            # serialised with marker/flag + witness stacks
        self._txid = None
        self._nowit = None

    def ser_nowit(self):
        if self._nowit is None:
            self._nowit = (struct.pack("<I", self.version) + compact_size(len(self.ins)) + b"".join(i.ser() for i in self.ins)
                           + compact_size(len(self.outs)) + b"".join(o.ser() for o in self.outs) + struct.pack("<I", self.locktime))
        return self._nowit

    def ser(self):
        if not self.segwit:
            return self.ser_nowit()
        wit = b""
        for i in self.ins:
            wit += compact_size(len(i.witness)) + b"".join(compact_size(len(w)) + w for w in i.witness)
        return (struct.pack("<I", self.version) + b"\x00\x01" + compact_size(len(self.ins)) + b"".join(i.ser() for i in self.ins)
                + compact_size(len(self.outs)) + b"".join(o.ser() for o in self.outs) + wit + struct.pack("<I", self.locktime))

    @property
    def txid(self):
        if self._txid is None:
            self._txid = sha256d(self.ser_nowit())
        return self._txid

    @property
    def txid_hex(self):
        return rhex(self.txid)

    def is_coinbase(self):
        return len(self.ins) == 1 and self.ins[0].prev_txid == ZERO32 and self.ins[0].prev_index == 0xFFFFFFFF

    def invalidate(self):
        self._txid = None
        self._nowit = None


def merkle_root(txids):
    """Bitcoin merkle root (odd levels duplicate the last hash)."""
    level = list(txids)
    if not level:
        return ZERO32
    while len(level) > 1:
        if len(level) % 2:
            level.append(level[-1])
        level = [sha256d(level[i] + level[i + 1]) for i in range(0, len(level), 2)]
    return level[0]


class Block:
    def __init__(self, version=1, prev=ZERO32, time=0, bits=0x1D00FFFF, nonce=0, txs=None, merkle=None, auxpow=None):
        self.version = version
        self.prev = prev
        self.time = time
        self.bits = bits
        self.nonce = nonce
        self.txs = txs or []
        self.merkle = merkle            # None -> computed
        self.auxpow = auxpow            # raw bytes of the AuxPoW section or None
        self.slack = b""               # bytes stored after the block INSIDE its record (the length prefix covers them)
        self._hash = None

    @property
    def merkle_bytes(self):
        return self.merkle if self.merkle is not None else merkle_root([t.txid for t in self.txs])

    def fix_merkle(self):
        self.merkle = merkle_root([t.txid for t in self.txs])
        self._hash = None

    def header(self):
        return (struct.pack("<I", self.version) + self.prev + self.merkle_bytes
                + struct.pack("<III", self.time, self.bits, self.nonce))

    @property
    def hash(self):
        if self._hash is None:
            self._hash = sha256d(self.header())
        return self._hash

    @property
    def hash_hex(self):
        return rhex(self.hash)

    def ser(self):
        return (self.header() + (self.auxpow or b"") + compact_size(len(self.txs)) + b"".join(t.ser() for t in self.txs))

    def invalidate(self):
        self._hash = None


def link(blocks, prev=ZERO32):
    """Sets prev hashes and merkle roots so that `blocks` is a consistent chain."""
    for b in blocks:
        b.prev = prev
        b.fix_merkle()
        b.invalidate()
        prev = b.hash
    return blocks


# ---------------------------------------------------------------- genesis blocks (rebuilt from public parameters)
def _genesis(text, pubkey_hex, value, time, bits, nonce, version=1, script_prefix=b"\x04\xff\xff\x00\x1d\x01\x04"):
    text = text.encode("utf-8")
    sig = script_prefix + bytes([len(text)]) + text
    pk = bytes.fromhex(pubkey_hex)
    tx = Tx(1, [TxIn(ZERO32, 0xFFFFFFFF, sig, 0xFFFFFFFF)], [TxOut(value, bytes([len(pk)]) + pk + b"\xac")], 0)
    return Block(version, ZERO32, time, bits, nonce, [tx])


_BTC_TEXT = "The Times 03/Jan/2009 Chancellor on brink of second bailout for banks"
_BTC_PK = "04678afdb0fe5548271967f1a67130b7105cd6a828e03909a67962e0ea1f61deb649f6bc3f4cef38c4f35504e51ec112de5c384df7ba0b8d578a4c702b6bf11d5f"
_LTC_PK = "040184710fa689ad5023690c80f3a49c8f13f8d45b8c857fbcbc8bc4a8e4d3eb4b10f4d4604fa08dce601aaf0f470216fe1b51850b4acf21b179c45070ac7b03a9"


def genesis_block(coin_name):
    """Returns the real genesis block of the coin, or None if it cannot be reconstructed offline."""
    if coin_name == "bitcoin":
        b = _genesis(_BTC_TEXT, _BTC_PK, 50 * 10**8, 1231006505, 0x1D00FFFF, 2083236893)
    elif coin_name == "testnet3":
        b = _genesis(_BTC_TEXT, _BTC_PK, 50 * 10**8, 1296688602, 0x1D00FFFF, 414098458)
    elif coin_name == "litecoin":
        b = _genesis("NY Times 05/Oct/2011 Steve Jobs, Apple’s Visionary, Dies at 56", _LTC_PK, 50 * 10**8,
                     1317972665, 0x1E0FFFF0, 2084524493, script_prefix=b"\x04\xff\xff\x00\x1d\x01\x04")
    elif coin_name == "dogecoin":
        b = _genesis("Nintondo", _LTC_PK, 88 * 10**8, 1386325540, 0x1E0FFFF0, 99943, script_prefix=b"\x04\xff\xff\x00\x1d\x01\x04")
    else:
        return None
    if b.hash_hex != COINS[coin_name].genesis_hash:
        return None
    return b
