#!/opt/veriftools/pyvenv/bin/python
"""Validates MANIFEST.json and evidence/*.json against the harness schemas."""
import glob, json, sys, jsonschema
ok = True
m = json.load(open('/verif/MANIFEST.json'))
jsonschema.validate(m, json.load(open('/root/.vp/MANIFEST.schema.json')))
es = json.load(open('/root/.vp/EVIDENCE.schema.json'))
for c in m['checks']:
    p = '/verif/' + c['evidence_file']
    try:
        e = json.load(open(p))
        jsonschema.validate(e, es)
        assert e['level'] == c['level_claimed']['category'], 'level mismatch'
        print('ok', p, e['tier'], e['coverage']['evaluations'], e['coverage']['distinct_nontrivial'])
    except Exception as ex:
        ok = False
        print('BAD', p, str(ex)[:200])
ids = [c['property_id'] for c in m['checks']] + [n['property_id'] for n in m.get('not_applicable', [])]
props = [json.loads(l)['id'] for l in open('/verif/properties.jsonl')]
assert sorted(ids) == sorted(props), (ids, props)
print('manifest valid; all properties accounted for' if ok else 'PROBLEMS')
sys.exit(0 if ok else 1)
