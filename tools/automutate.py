#!/usr/bin/env python3
"""Systematic first-order mutation of /repo/src (non-test code): relational/boolean/arithmetic operator and constant
mutations plus statement deletion of selected calls. For each sampled mutant: does it compile, do the repo's own 41 tests
still pass, and which quick check (of those relevant to the file) reports a violation first?
Usage: tools/automutate.py [-n N] [-j J] [--seed S] [--files pattern]   -> mutants/AUTO_RESULTS.md (+ /verif/.work/automut/*.diff)"""
import os
import random
import re
import subprocess
import sys
from concurrent.futures import ThreadPoolExecutor

VERIF = os.path.dirname(os.path.dirname(os.path.abspath(__file__)))
REPO = "/repo"
RELEVANT = {
    "src/blockchain/parser/reader.rs": ["C01", "C12", "C11", "C14", "C09"],
    "src/blockchain/parser/index.rs": ["C03", "C04", "C02", "C17", "C09"],
    "src/blockchain/parser/chain.rs": ["C09", "C17", "C10", "C03"],
    "src/blockchain/parser/blkfile.rs": ["C03", "C11", "C17", "C10", "C13"],
    "src/blockchain/parser/mod.rs": ["C02", "C10"],
    "src/blockchain/parser/types.rs": ["C06", "C12", "C09", "C05"],
    "src/blockchain/proto/script/mod.rs": ["C05", "C16", "C14", "C15"],
    "src/blockchain/proto/script/custom.rs": ["C06", "C16", "C14"],
    "src/blockchain/proto/tx.rs": ["C01", "C09", "C15", "C07"],
    "src/blockchain/proto/block.rs": ["C01", "C09", "C15", "C13"],
    "src/blockchain/proto/header.rs": ["C01", "C09"],
    "src/blockchain/proto/varuint.rs": ["C01", "C09"],
    "src/blockchain/proto/mod.rs": ["C01", "C09"],
    "src/callbacks/csvdump.rs": ["C01", "C10", "C13", "C02"],
    "src/callbacks/unspentcsvdump.rs": ["C07", "C10", "C02"],
    "src/callbacks/balances.rs": ["C08", "C10", "C02"],
    "src/callbacks/common.rs": ["C07", "C08"],
    "src/callbacks/simplestats.rs": ["C15", "C02"],
    "src/callbacks/opreturn.rs": ["C16", "C02"],
    "src/common/utils.rs": ["C09", "C15", "C01"],
    "src/main.rs": ["C02", "C10", "C09"],
}
OPS = [
    (r" >= ", " > "), (r" > ", " >= "), (r" <= ", " < "), (r" < ", " <= "), (r" == ", " != "), (r" != ", " == "),
    (r" && ", " || "), (r" \|\| ", " && "), (r" \+ 1\b", " + 2"), (r" - 1\b", " - 2"), (r" \+ ", " - "), (r" - 4\b", " - 3"),
    (r"\b0\.\.", "1.."), (r"saturating_sub\(1\)", "saturating_sub(2)"), (r"\.skip\(1\)", ".skip(2)"), (r" % 2 == 1", " % 2 == 0"),
    (r"\[0\]", "[1]"), (r"\bu32\b", "u16"), (r"is_some\(\)", "is_none()"), (r"\bSome\(version\) if ", "Some(version) if !"),
]
OPS2 = [
    (r"0xFFFFFFFF\b", "0xFFFFFFFE"), (r"\b0x7F\b", "0xFF"), (r"\b0x80\b", "0x40"), (r" << 7\b", " << 8"), (r"\(i \* 8\)", "(i * 4)"),
    (r" as u32\b", " as u16 as u32"), (r" as u64\b", " as u32 as u64"), (r"\btrue\b", "false"), (r"\bfalse\b", "true"),
    (r"\.skip\(2\)", ".skip(1)"), (r"\.take\(20\)", ".take(19)"), (r"\b210000\b", "210001"), (r"\b100000000\b", "10000000"),
    (r" / 1024\.00", " / 1000.00"), (r" / 60\.00", " / 61.00"), (r" \* 100\.00", " * 10.00"), (r"\b32 \* 1024\b", "31 * 1024"),
    (r"offset - 4\b", "offset - 5"), (r"\b\[1\.\.\]", "[0..]"), (r"key\[0\.\.32\]", "key[0..31]"), (r"key\[32\.\.\]", "key[31..]"),
    (r"\.len\(\) \* 2\b", ".len()"), (r"\{b:02x\?\}", "{b:x?}"), (r"\.chunks\(2\)", ".chunks(3)"), (r"c\.len\(\) == 2", "c.len() >= 1"),
    (r"hashes\.len\(\) > 1", "hashes.len() > 2"), (r"\.first\(\)", ".last()"), (r"\.last\(\)", ".first()"), (r"\.iter\(\)\.enumerate\(\)", ".iter().rev().enumerate()"),
    (r"in_count\.value == 1", "in_count.value >= 1"), (r"in_count\.value == 0", "in_count.value <= 1"), (r"flags & 1 > 0", "flags & 2 > 0"),
    (r"\.checked_sub\(", ".wrapping_sub("), (r"unwrap_or_default\(\)", "unwrap_or(1)"), (r"block_height / 210000", "block_height / 210000 + 1"),
    (r"n as usize", "n as u8 as usize"), (r"SeekFrom::Start", "SeekFrom::Current".replace("Current", "Start")), (r"height - 1\b", "height"),
    (r"\b0x00 \| 0x6f\b", "0x00"), (r"Network::Testnet", "Network::Bitcoin"), (r"\b4000000\b", "40"), (r"with_capacity\(cap,", "with_capacity(cap / cap,"),
]
DELETE = [r"^\s*self\.\w+\.flush\(\)\?;$", r"^\s*writer\.flush\(\)\?;$", r"^\s*blk_file\.close\(\)$", r"^\s*self\.reader = None;$", r"^\s*n \+= 1;$",
          r"^\s*self\.cur_height = height \+ 1;$", r"^\s*self\.ip \+= \d;$", r"^\s*process::exit\(1\);$", r"^\s*block\.verify_merkle_root\(\)\?;$",
          r"^\s*unspents\.remove\(&key\);$", r"^\s*\*entry \+= unspent\.value$", r"^\s*continue;$", r"^\s*self\.absolute_pos \+= n as u64;$"]


def candidates():
    out = []
    for rel in sorted(RELEVANT):
        path = os.path.join(REPO, rel)
        lines = open(path).read().split("\n")
        in_tests = False
        for i, ln in enumerate(lines):
            if re.match(r"\s*#\[cfg\(test\)\]", ln):
                in_tests = True
            if in_tests:
                continue
            st = ln.strip()
            if not st or st.startswith("//") or st.startswith("///") or "verif" in ln or st.startswith("use ") or st.startswith("#["):
                continue
            if "info!(" in ln or "debug!(" in ln or "trace!(" in ln or "warn!(" in ln or "error!(" in ln or ".help(" in ln or "writeln!" in ln:
                continue
            for pat, rep in (OPS2 if os.environ.get("AUTOMUT_SET") == "2" else ([] if os.environ.get("AUTOMUT_SET") == "3" else OPS)):
                for m in re.finditer(pat, ln):
                    if pat in (r" < ", r" > ") and ("->" in ln or "<" in ln and ">" in ln and ("Vec<" in ln or "Option<" in ln or "Result<" in ln or "HashMap<" in ln or "::<" in ln)):
                        continue
                    new = ln[:m.start()] + re.sub(pat, rep, ln[m.start():m.end()]) + ln[m.end():]
                    if new != ln:
                        out.append((rel, i, ln, new, "%s -> %s" % (pat.replace("\\", ""), rep)))
            if os.environ.get("AUTOMUT_SET") == "3":
                # set 3: delete any simple one-line statement (assignment, +=, push/insert/extend call)
                if re.match(r"^\s*(self\.)?[\w\.\[\]\*]+ (\+=|-=|=) [^=].*;$", ln) or re.match(r"^\s*[\w\.]+\.(push|insert|extend|remove|write_all)\(.*\)\??;$", ln):
                    if not st.startswith("let ") and "=>" not in ln:
                        out.append((rel, i, ln, ln[:len(ln) - len(ln.lstrip())] + "// (statement removed)", "delete statement"))
                continue
            for pat in (DELETE if os.environ.get("AUTOMUT_SET") != "2" else []):
                if re.match(pat, ln):
                    out.append((rel, i, ln, ln[:len(ln) - len(ln.lstrip())] + "// (statement removed)", "delete statement"))
    return out


def make_patch(c, idx, outdir):
    rel, i, old, new, desc = c
    lines = open(os.path.join(REPO, rel)).read().split("\n")
    lines2 = list(lines)
    lines2[i] = new
    import difflib
    diff = "".join(difflib.unified_diff([l + "\n" for l in lines], [l + "\n" for l in lines2], "a/" + rel, "b/" + rel, n=3))
    path = os.path.join(outdir, "%s%04d.diff" % ({"2": "B", "3": "D"}.get(os.environ.get("AUTOMUT_SET"), "A"), idx))
    open(path, "w").write(diff)
    return path


def one(job):
    idx, c, path = job
    ids = RELEVANT[c[0]]
    p = subprocess.run([os.path.join(VERIF, "selftest"), "--tests", "--need-tests", "--first", path] + ids, stdout=subprocess.PIPE, stderr=subprocess.STDOUT, text=True)
    out = p.stdout
    if "patch does not apply" in out:
        verdict = "no-apply"
    elif "BUILD-FAILED" in out or "repo tests with patch: FAILED" in out and "error[" in out:
        verdict = "does-not-compile"
    elif "repo tests with patch: FAILED" in out:
        verdict = "killed-by-repo-tests"
    else:
        m = re.search(r"SELFTEST CAUGHT (C\d\d)", out)
        if m:
            verdict = "killed-by-" + m.group(1)
        elif "SELFTEST MISSED" in out:
            verdict = "SURVIVED"
        else:
            verdict = "error"
    return idx, c, verdict, out


def main():
    args = sys.argv[1:]

    def opt(name, default, conv=int):
        if name in args:
            v = conv(args[args.index(name) + 1])
            del args[args.index(name):args.index(name) + 2]
            return v
        return default
    n = opt("-n", 120)
    jobs = opt("-j", 4)
    seed = opt("--seed", 1)
    filt = opt("--files", None, str)
    cands = candidates()
    if filt:
        cands = [c for c in cands if filt in c[0]]
    rng = random.Random(seed)
    rng.shuffle(cands)
    # spread over files: round-robin by file
    byfile = {}
    for c in cands:
        byfile.setdefault(c[0], []).append(c)
    picked = []
    while len(picked) < n and any(byfile.values()):
        for f in sorted(byfile):
            if byfile[f] and len(picked) < n:
                picked.append(byfile[f].pop())
    outdir = os.path.join(VERIF, ".work", "automut")
    os.makedirs(outdir, exist_ok=True)
    todo = [(i, c, make_patch(c, i, outdir)) for i, c in enumerate(picked)]
    print("%d candidate mutations, %d sampled" % (len(cands), len(todo)), flush=True)
    rows = []
    with ThreadPoolExecutor(max_workers=jobs) as ex:
        for idx, c, verdict, out in ex.map(one, todo):
            rows.append((idx, c, verdict))
            print("A%04d %-45s L%-4d %-28s %s" % (idx, c[0], c[1] + 1, c[4], verdict), flush=True)
            if verdict in ("SURVIVED", "error"):
                open(os.path.join(outdir, "A%04d.log" % idx), "w").write(out)
    import collections
    cnt = collections.Counter(v.split("-by-")[0] if v.startswith("killed") else v for _, _, v in rows)
    valid = [r for r in rows if r[2].startswith("killed-by-C") or r[2] == "SURVIVED"]
    killed = [r for r in valid if r[2] != "SURVIVED"]
    with open(os.path.join(VERIF, "mutants", "AUTO_RESULTS.md"), "a") as f:
        f.write("\n## Run with seed %d, %d sampled of %d candidates\n\n" % (seed, len(todo), len(cands)))
        f.write("%s\n\nMutants that compile and pass the repo's 41 tests: %d; killed by a quick check: %d; survived: %d.\n\n" % (dict(cnt), len(valid), len(killed), len(valid) - len(killed)))
        f.write("| id | file:line | mutation | original line | verdict |\n|---|---|---|---|---|\n")
        for idx, c, v in sorted(rows):
            f.write("| A%04d | %s:%d | %s | `%s` | %s |\n" % (idx, c[0], c[1] + 1, c[4].replace("|", "\\|"), c[2].strip().replace("|", "\\|")[:100], v))
    print(dict(cnt))
    print("valid %d killed %d survived %d" % (len(valid), len(killed), len(valid) - len(killed)))


if __name__ == "__main__":
    main()
