#!/usr/bin/env python3
"""Generates /verif/MANIFEST.json from the table below (single source of truth for the interface file)."""
import json
import os

VERIF = os.path.dirname(os.path.dirname(os.path.abspath(__file__)))

# id -> (category, technique, design_ref, level text, level note)
CHECKS = {
    "C01": ("exploration", "reference-model monitor: byte-exact comparison of real csvdump runs on generated chains",
            "DESIGN.md §4 C01",
            "Real csvdump runs over generated chains covering every CompactSize width boundary in every count/length position, segwit/legacy "
            "mixes, extreme field values, long chains and big scripts, x 8 coins x --verify on/off (+ debug build subset); all four CSV files, "
            "file names and completion totals must equal an independent model byte for byte. One run of more than 2^16 blocks (70,000; 140,000 in thorough) is compared with the model as well.",
            "Trusts the Python serialiser/model (hashlib sha256) and rusty-leveldb as index writer; only canonical, well-formed chains are generated."),
    "C02": ("exploration", "trace-spec monitor over hook event log + reference-model monitor on real runs",
            "DESIGN.md §4 C02",
            "Every accepted (--start,--end) combination for chains of 1..6 (quick) / 1..10 (thorough) blocks is executed with all five "
            "callbacks on the real binary; the H1 delivery log must be exactly start(s), deliver s..min(e,T) ascending once, complete(last); "
            "all outputs must equal the independent model of that slice. Bounded-exhaustive for small T, sampled for heights up to 5M. Windows crossing round heights (10^k, 2^k, halving multiples) included.",
            "Trusts the Python reference model/generators, rusty-leveldb (index writer) and that the H1 hook is placed directly before the callback call."),
    "C03": ("exploration", "metamorphic + reference-model monitor over physical layouts, trace check of the fetch log",
            "DESIGN.md §4 C03",
            "One logical chain is laid out in many physical ways (file assignment/order, 1..300 files, file numbers to 2^64-1, name padding, "
            "gaps/garbage/foreign/unindexed blocks, sparse >4 GiB offsets, extra index keys and directory entries, index storage styles); every "
            "layout is run for real and must give the model's output, identical across layouts; the H2 fetch log must name the record's (file, offset). Includes records longer than their block, index churn over several database sessions, and block files owned by another account than the one running the tool.",
            "Trusts the generator's CDiskBlockIndex encoding (written from Bitcoin Core's serialisation rules) and rusty-leveldb."),
    "C05": ("exploration", "differential monitor: real evaluator verdict stream vs reference rule table + independent address decoder",
            "DESIGN.md §4 C05",
            "2x10^5 (quick) to millions (thorough) of scripts from exhaustive mutation families and random generators are evaluated by the real "
            "code (release and debug) and compared with a reference classifier written from the statement; every address is decoded by an "
            "independent Base58Check/Bech32(m) implementation; a sample is observed black-box through four callbacks. Key material includes real curve points in every SEC1 form; other spellings of the coin name are tried black-box.",
            "The reference is my reading of the statement; two multisig look-alike shapes are type-unconstrained. The tool-mode hook calls the production function unchanged."),
    "C06": ("exploration", "differential monitor: real evaluator verdict stream vs push-rule tokenizer/template reference",
            "DESIGN.md §4 C06",
            "As C05 for the six fork coins with fork-specific families (every push form in every template slot across all width boundaries, "
            "zero-length and truncated pushes, NOP insertion, wrong/missing/extra tokens); no Error pattern and no panic allowed. Long evaluation histories in one process (2^16+ distinct destinations, then earlier ones return in the same and in another role). Key material includes real curve points in compressed, uncompressed and hybrid form.",
            "Reference tokenizer + five templates from the statement; coin version bytes taken from the property text."),
    "C11": ("exploration", "metamorphic monitor: plaintext vs XOR-obfuscated directory, plus reference model",
            "DESIGN.md §4 C11",
            "For keys of every length 1..64 (quick: 11 lengths) x {zero, random, 0xff, single-bit} and layouts forcing backward/forward/beyond-"
            "buffer seeks, >32 KiB blocks, unaligned offsets and >4 GiB offsets, the obfuscated directory must give byte-identical output to the "
            "plaintext one and to the model; seek kinds actually exercised are counted from the H2 log.",
            "Obfuscation performed by the harness (independent XOR); holes of sparse files are never read."),
    "C14": ("exploration", "totality monitor (exit status/panic) on debug+release builds + reference model on whole-program runs",
            "DESIGN.md §4 C14",
            "Hostile byte strings are pushed through the evaluator in-process (catch_unwind) on debug and release builds for 8 coins, and placed "
            "into scriptPubKey/scriptSig/witness of valid chains on which all five callbacks must exit 0 with outputs equal to the model. Well-formed scripts count as hostile content too: innocent outputs reusing a hostile script's pushed bytes in another role must keep their model rows. A deadlock (process tree idle and asleep for 10 s) counts as a failed run, a busy process at the watchdog as inconclusive.",
            "Debug-profile overflow/bounds checks act as the sanitizer; chains are otherwise valid."),
    "C16": ("exploration", "reference-model monitor on real opreturn runs (exact text and order)",
            "DESIGN.md §4 C16",
            "Payload lengths 0..300 exhaustively and up to 70,000 in every push form, ASCII/UTF-8/invalid/newline/control payloads mixed with all "
            "other script types x 8 coins x ranges; stdout minus log lines must equal the model's line sequence exactly. One run of more than 2^16 blocks (70,000; 140,000 in thorough) is compared with the model as well. Identical transactions in different blocks included.",
            "OP_RETURN scripts that are not exactly one push are unconstrained; payloads never look like log lines."),
    "C04": ("exploration", "trace-spec monitor over the delivery log (exact sequence + prev links) + reference model of the active chain alone",
            "DESIGN.md §4 C04, §5",
            "Indexes with an active chain plus header-only / failed records and one data-bearing competitor class (stale, failed, reorged-out; "
            "occupied height or beyond the tip; key sorted before/after the active block; branch length 1..3) are run for real; the delivered hash "
            "sequence must be the active chain with intact prev links and every output must equal the model. Four competitor shapes are recorded "
            "known findings (KNOWN_FINDINGS.txt); every other deviation, including an unexpected one inside such a case, is a violation. Indexes of a node in headers-first sync (9,000 to 140,000 header-only records) with losing competitors at most heights included. Includes data directories that grow between runs (later database sessions of the node).",
            "Status semantics of Bitcoin Core's BlockStatus; one data-bearing competitor class per index so that attribution is exact."),
    "C07": ("exploration", "reference-model monitor over bounded-exhaustive and random spend histories (row multiset of real unspentcsvdump runs)",
            "DESIGN.md §4 C07",
            "All event sequences of <=4 (quick) / <=5 (thorough) events over an 11-letter alphabet, in every split over <=3 blocks, packed as "
            "independent lanes into real chains, x ranges x 3 coins, plus random long histories: header, row multiset, no duplicates and totals "
            "must equal the model UTXO set. One run of more than 2^16 blocks (70,000; 140,000 in thorough) is compared with the model as well.",
            "UTXO semantics as stated in the property; addresses from the C05/C06 reference for pinned script shapes only."),
    "C08": ("exploration", "reference-model monitor + two-run relation monitor (balances vs aggregated unspent dump)",
            "DESIGN.md §4 C08",
            "C07 histories plus address-sharing, P2PK/P2PKH of one key, spent-and-refunded addresses and sums up to just below 2^64; the real "
            "balances file must equal the model and the aggregation of the unspent dump produced from the same directory and range. One run of more than 2^16 blocks (70,000; 140,000 in thorough) is compared with the model as well.",
            "Per-address sums below 2^64."),
    "C09": ("fault_enumeration", "fault enumeration on stored bytes (single-bit flips, block swaps, wrong genesis) with exit-status/stderr/directory oracle; completeness by model",
            "DESIGN.md §4 C09",
            "Completeness: every tx count 1..64 and larger trees, start offsets, 8 coins with real genesis blocks where reconstructible. "
            "Soundness: all 256 bits of the merkle and prev fields of targeted blocks, sampled (quick) or all (thorough) bits of txid-covered tx "
            "bytes, foreign-block swaps and wrong genesis must make the run fail at that height with no final-named output. A verified run of more than 2^16 blocks and windows crossing round heights (10^k, 2^k) must be accepted too. Consistent chains with non-monotonic, future-dated and edge-of-range header times included.",
            "Unparsable-after-flip counts as rejected; corruption applied to block bytes while the index keeps the original hash."),
    "C10": ("fault_enumeration", "fault enumeration (file faults, RLIMIT_FSIZE, strace-injected write errors, SIGKILL at syscall ordinals) with outcome oracle + trace spec over strace logs; strace-injected errors on input syscalls, mid-run file damage under SIGSTOP",
            "DESIGN.md §4 C10",
            "Input faults at every height x kind x truncation point; output faults on a size-limit grid and at every k-th write; SIGKILL at every "
            "ordinal of every output syscall; outcome oracle (exit 0 => complete final files and no tmp; failure => no final file), trace spec "
            "'final names only via rename(tmp->final), no write after rename', crash oracle 'no partial final-named file'. Also: EMFILE/ENOENT/EACCES/EIO injected at every open and read of a blk file, blk files unlinked or shrunk while the run is suspended, and faults hitting 255..1024 blocks at once. Also: the readers of stdout / stderr gone (closed pipe, head -n 1, /dev/full).",
            "Kill points are syscall boundaries touching output paths; kernel-level torn writes and fsync semantics out of scope."),
    "C12": ("exploration", "reference-model monitor on real runs over generated AuxPoW sections",
            "DESIGN.md §4 C12",
            "AuxPoW sections of arbitrary shape (legacy/segwit parent coinbase, branch lengths 0..40 and 252..300) on namecoin/dogecoin for "
            "versions below/at/above the threshold, mixed chains, and the six other coins as negative control; csvdump (+unspent/simplestats) "
            "with --verify must equal the model that ignores the section. Includes runs without -c on directories named like other coins' default folders.",
            "Section layout per the merged-mining specification."),
    "C13": ("exploration", "cross-run equality monitor under varied schedules (thread counts, in-task delay injection, CPU pinning) with hook-proved work splitting; run-history monitor with input-integrity digests and strace spec; ThreadSanitizer (thorough); suspended-run monitor",
            "DESIGN.md §4 C13",
            "The same directory is run under 6 thread counts x jitter seeds x CPU contention; all callbacks must agree with each other and the "
            "model; H3 log proves blocks were split across workers and counts distinct thread->task maps. Run sequences into a dirty dump folder "
            "with the index reopened 11 times: results unchanged, blk/xor digests and index key/value dump unchanged, no write-type syscall on "
            "input files. Thorough adds a TSan build. Runs suspended for more than 10 s (SIGSTOP/SIGCONT) reach the time-driven progress report and must give the undisturbed result; schedule chains contain ties for both per-report records. Concurrent instances (B runs completely while A is stopped) must each give their own model's result.",
            "Only observed interleavings count; jitter sleeps inside tasks; TSan reports inside dependencies are listed as inconclusive."),
    "C15": ("exploration", "reference-model monitor: parsed report vs exact rational recomputation, on debug and release builds; direct get_mean monitor through the tool mode",
            "DESIGN.md §4 C15",
            "Chains with all script types, non-monotonic timestamps, ties, multiple coinbase-shaped txs, halving boundaries and gap sums above "
            "2^32 x coins x ranges on both builds; every figure of the real report equals the exact recomputation at printed precision; "
            "get_mean checked on thousands of u32 multisets including sums above 2^32. One run of more than 2^16 blocks (70,000; 140,000 in thorough) is compared with the model as well.",
            "No block with timestamp 0; value sums below 2^64."),
    "C17": ("exploration", "trace-spec monitor over /proc/self/fd census events + RLIMIT_NOFILE black-box monitor",
            "DESIGN.md §4 C17",
            "Real runs over 1..100/300-file layouts (disjoint, overlapping, interleaved, revisited) and ranges; after every block the real set of "
            "descriptors open on blk files must be within the files that still hold a higher block; runs must also succeed under a descriptor "
            "limit calibrated on the single-file layout (+2/+3). --verify ranges beginning behind a file's last block included.",
            "Census hook reads /proc/self/fd; bound computed from the full index as the statement allows."),
}

NOT_YET = {
}


def main():
    props = [json.loads(l) for l in open(os.path.join(VERIF, "properties.jsonl"))]
    checks = []
    na = []
    for p in props:
        pid = p["id"]
        if pid in CHECKS:
            cat, tech, ref, text, note = CHECKS[pid]
            checks.append({
                "property_id": pid,
                "quick_cmd": "./check %s quick" % pid,
                "thorough_cmd": "./check %s thorough" % pid,
                "evidence_file": "evidence/%s.json" % pid,
                "replay_cmd_template": "./check %s --replay {path}" % pid,
                "engine": "vf",
                "level_claimed": {"category": cat, "text": text, "design_ref": ref},
                "level_note": note,
                "technique": tech,
            })
        else:
            na.append({"property_id": pid, "reason": NOT_YET.get(pid, "check not built yet in this revision of /verif (planned: see DESIGN.md §4); not claimed")})
    man = {
        "version": 1,
        "setup_cmd": "./setup.sh",
        "hooks": {
            "guard": "cargo feature `verif`",
            "enable": "cargo build --offline --features verif [--release] --manifest-path /repo/Cargo.toml (CARGO_TARGET_DIR=/verif/.build/<profile>)",
            "baseline_off_cmd": "cd /repo && cargo test --workspace --no-fail-fast --offline",
            "source_commits": HOOK_COMMITS,
            "add_only": True,
        },
        "engines": [{"name": "vf", "path": "vf/", "serves_properties": sorted(CHECKS),
                     "kind_free_text": "Python runtime-monitoring framework: workload generators, independent reference model, process runner with "
                                       "fault injection (rlimits, strace inject), offline trace-spec checkers over hook event logs and syscall traces"}],
        "checks": checks,
        "not_applicable": na,
        "notes": "All checks build /repo's working tree with --features verif into /verif/.build and run the real binary. "
                 "Exit 0 held / 1 VIOLATION / 2 inconclusive (build failure or non-vacuity floor not met). Known findings: KNOWN_FINDINGS.txt.",
    }
    if not na:
        del man["not_applicable"]
    with open(os.path.join(VERIF, "MANIFEST.json"), "w") as f:
        json.dump(man, f, indent=1)
        f.write("\n")


HOOK_COMMITS = ["9459375"]

if __name__ == "__main__":
    main()
