#!/usr/bin/env python3
"""Generates /verif/MANIFEST.json from the table below (single source of truth for the interface file)."""
import json
import os

VERIF = os.path.dirname(os.path.dirname(os.path.abspath(__file__)))

# id -> (category, technique, design_ref, level text, level note)
CHECKS = {
    "C02": ("exploration", "trace-spec monitor over hook event log + reference-model monitor on real runs",
            "DESIGN.md §4 C02",
            "Every accepted (--start,--end) combination for chains of 1..6 (quick) / 1..10 (thorough) blocks is executed with all five "
            "callbacks on the real binary; the H1 delivery log must be exactly start(s), deliver s..min(e,T) ascending once, complete(last); "
            "all outputs must equal the independent model of that slice. Bounded-exhaustive for small T, sampled for heights up to 5M.",
            "Trusts the Python reference model/generators, rusty-leveldb (index writer) and that the H1 hook is placed directly before the callback call."),
}

NOT_YET = {
}


def main():
    props = [json.loads(l) for l in open(os.path.join(VERIF, "properties.jsonl"))]
    checks = []
    na = []
    for p in props:
        pid = p["id"]
        if pid in CHECKS:
            cat, tech, ref, text, note = CHECKS[pid]
            checks.append({
                "property_id": pid,
                "quick_cmd": "./check %s quick" % pid,
                "thorough_cmd": "./check %s thorough" % pid,
                "evidence_file": "evidence/%s.json" % pid,
                "replay_cmd_template": "./check %s --replay {path}" % pid,
                "engine": "vf",
                "level_claimed": {"category": cat, "text": text, "design_ref": ref},
                "level_note": note,
                "technique": tech,
            })
        else:
            na.append({"property_id": pid, "reason": NOT_YET.get(pid, "check not built yet in this revision of /verif (planned: see DESIGN.md §4); not claimed")})
    man = {
        "version": 1,
        "setup_cmd": "./setup.sh",
        "hooks": {
            "guard": "cargo feature `verif`",
            "enable": "cargo build --offline --features verif [--release] --manifest-path /repo/Cargo.toml (CARGO_TARGET_DIR=/verif/.build/<profile>)",
            "baseline_off_cmd": "cd /repo && cargo test --workspace --no-fail-fast --offline",
            "source_commits": HOOK_COMMITS,
            "add_only": True,
        },
        "engines": [{"name": "vf", "path": "vf/", "serves_properties": sorted(CHECKS),
                     "kind_free_text": "Python runtime-monitoring framework: workload generators, independent reference model, process runner with "
                                       "fault injection (rlimits, strace inject), offline trace-spec checkers over hook event logs and syscall traces"}],
        "checks": checks,
        "not_applicable": na,
        "notes": "All checks build /repo's working tree with --features verif into /verif/.build and run the real binary. "
                 "Exit 0 held / 1 VIOLATION / 2 inconclusive (build failure or non-vacuity floor not met). Known findings: KNOWN_FINDINGS.txt.",
    }
    if not na:
        del man["not_applicable"]
    with open(os.path.join(VERIF, "MANIFEST.json"), "w") as f:
        json.dump(man, f, indent=1)
        f.write("\n")


HOOK_COMMITS = ["9459375"]

if __name__ == "__main__":
    main()
