//! Tiny helper around rusty-leveldb (same version as rusty-blockparser uses):
//!   ldbtool write <dir> <pairs-file> [write_buffer_bytes] [sessions] [compact]
//!       pairs-file: one `<hexkey> <hexvalue>` per line ("del <hexkey>" deletes)
//!       sessions: number of open/close cycles the pairs are spread over (log -> table rewrites)
//!   ldbtool dump <dir>
//!       prints all pairs as `<hexkey> <hexvalue>`, in key order
use rusty_leveldb::{LdbIterator, Options, DB};
use std::io::{BufRead, Write};

fn unhex(s: &str) -> Vec<u8> {
    assert!(s.len() % 2 == 0, "odd hex");
    (0..s.len())
        .step_by(2)
        .map(|i| u8::from_str_radix(&s[i..i + 2], 16).expect("hex"))
        .collect()
}

fn hex(b: &[u8]) -> String {
    b.iter().map(|x| format!("{:02x}", x)).collect()
}

fn main() {
    let args: Vec<String> = std::env::args().collect();
    match args.get(1).map(|s| s.as_str()) {
        Some("write") => {
            let dir = &args[2];
            let pairs = std::fs::File::open(&args[3]).expect("pairs file");
            let wbuf: usize = args.get(4).map(|v| v.parse().unwrap()).unwrap_or(4 << 20);
            let sessions: usize = args.get(5).map(|v| v.parse().unwrap()).unwrap_or(1).max(1);
            let compact = args.get(6).map(|v| v == "compact").unwrap_or(false);
            let lines: Vec<String> = std::io::BufReader::new(pairs)
                .lines()
                .map(|l| l.unwrap())
                .filter(|l| !l.trim().is_empty())
                .collect();
            let per = (lines.len() + sessions - 1) / sessions.max(1);
            let mut chunks: Vec<&[String]> = if per == 0 { vec![] } else { lines.chunks(per).collect() };
            if chunks.is_empty() {
                chunks.push(&[]);
            }
            for (ci, chunk) in chunks.iter().enumerate() {
                let mut opt = Options::default();
                opt.create_if_missing = true;
                opt.write_buffer_size = wbuf;
                let mut db = DB::open(dir, opt).expect("open");
                for l in chunk.iter() {
                    let mut it = l.split_whitespace();
                    let a = it.next().unwrap();
                    if a == "del" {
                        db.delete(&unhex(it.next().unwrap())).expect("delete");
                    } else {
                        db.put(&unhex(a), &unhex(it.next().unwrap_or(""))).expect("put");
                    }
                }
                db.flush().expect("flush");
                if compact && ci + 1 == chunks.len() {
                    db.compact_range(&[0u8], &[0xffu8; 40]).expect("compact");
                }
                db.close().expect("close");
            }
        }
        Some("dump") => {
            let mut db = DB::open(&args[2], Options::default()).expect("open");
            let mut it = db.new_iter().expect("iter");
            let (mut k, mut v) = (vec![], vec![]);
            let out = std::io::stdout();
            let mut out = std::io::BufWriter::new(out.lock());
            while it.advance() {
                it.current(&mut k, &mut v);
                writeln!(out, "{} {}", hex(&k), hex(&v)).unwrap();
            }
            out.flush().unwrap();
        }
        _ => {
            eprintln!("usage: ldbtool write <dir> <pairs> [wbuf] [sessions] [compact] | dump <dir>");
            std::process::exit(2);
        }
    }
}
