#!/bin/bash
# usage: confirm_seed.sh Cxx [base dir]  -> writes <base>/Cxx-out/CONFIRM.txt (worktree <base>/Cxx holds the patched tree)
id=$1; base=${2:-/tmp/seed10}; wt=$base/$id; out=$base/$id-out; res=$out/CONFIRM.txt
export CARGO_NET_OFFLINE=true
{
cd $wt || exit 9
echo "== diff vs patch.diff"
git diff > $out/my.diff
if cmp -s $out/my.diff $out/patch.diff; then echo "worktree diff == patch.diff"; else echo "worktree diff != patch.diff (using worktree reset + patch.diff)"; git stash -q; git apply $out/patch.diff || echo "PATCH DOES NOT APPLY"; fi
git status --short | grep -v '^??' 
echo "== build patched"
cargo build --offline 2>&1 | tail -1
cargo build --offline --features verif 2>&1 | tail -1
cp target/debug/rusty-blockparser $out/my-bin-patched
echo "== tests with patch"
cargo test --offline 2>&1 | grep -E "test result|passed|failed" | head -3
git diff > $out/applied.diff
git apply -R $out/applied.diff
echo "== build orig"; git status --short | grep -v '^??'
cargo build --offline --features verif 2>&1 | tail -1
cp target/debug/rusty-blockparser $out/my-bin-orig
git apply $out/applied.diff
cd $out
echo "== demo patched"; timeout 600 bash ./demo.sh $out/my-bin-patched > $out/demo-patched.log 2>&1; echo "rc=$?"
echo "== demo orig"; timeout 600 bash ./demo.sh $out/my-bin-orig > $out/demo-orig.log 2>&1; echo "rc=$?"
} > $res 2>&1
