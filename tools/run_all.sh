#!/bin/sh
# Runs every check of MANIFEST.json at the given tier (default quick) in /verif against /repo and prints one line per check.
# usage: tools/run_all.sh [quick|thorough]     (honours VERIF_SEED)
cd "$(dirname "$0")/.."
tier=${1:-quick}
rc_all=0
for c in C01 C02 C03 C04 C05 C06 C07 C08 C09 C10 C11 C12 C13 C14 C15 C16 C17; do
    out=$(./check $c $tier 2>&1); rc=$?
    echo "$c rc=$rc $(echo "$out" | grep -E "$tier seed" | head -1)"
    echo "$out" | grep -E "^(VIOLATION|KNOWN-FINDING|INCONCLUSIVE)" | cut -c1-200
    [ $rc -ne 0 ] && rc_all=1
done
exit $rc_all
