#!/bin/sh
# Builds everything the checks need from files on disk only (offline).
set -e
cd "$(dirname "$0")"
export CARGO_NET_OFFLINE=true
python3 - <<'PY'
import sys
sys.path.insert(0, ".")
from vf import core, selfcheck
selfcheck.main()
print("ldbtool:", core.ldbtool())
print("release:", core.build("release"))
print("debug:", core.build("debug"))
PY
